#!/bin/bash
# usage: run_seeded.sh <seeded-dir> <Cxx> [Cyy ...] -- apply the seeded change to /repo, run the quick checks, undo it.
# prints one line per check: exit code + first violation signature
D=$1; shift
cd /repo || exit 2
git diff --quiet || { echo "/repo has uncommitted changes"; exit 2; }
git apply "$D/patch.diff" || { echo "patch does not apply"; exit 2; }
B=$(mktemp -d /tmp/evbackup.XXXX); cp -r /verif/evidence/. $B/ 2>/dev/null
trap 'git -C /repo checkout -- . ; rm -rf /verif/evidence; mkdir -p /verif/evidence; cp -r '$B'/. /verif/evidence/; rm -rf '$B EXIT
for c in "$@"; do
  out=$(cd /verif && ./check "$c" --tier quick 2>&1); rc=$?
  sig=$(echo "$out" | grep -m1 "signature=" | sed 's/.*signature=//' | cut -c1-160)
  echo "$(basename $D) :: $c exit=$rc :: $sig"
done
