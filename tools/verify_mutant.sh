#!/bin/bash
# usage: verify_mutant.sh <Cxx>  -- confirm, in the scratch worktree /tmp/wt_<Cxx>, that the seeded change compiles,
# passes the existing suite, and that the demonstration fails with it and passes without it. Prints a JSON line.
P=$1; W=/tmp/wt_$P
cd $W || exit 2
[ -f RESULT/patch.diff ] || { echo "no patch"; exit 2; }
git checkout -q -- src 2>/dev/null
rm -f tests/demo_seeded.rs
git apply RESULT/patch.diff || { echo "patch does not apply"; exit 2; }
suite=$(cargo nextest run --workspace --no-fail-fast --offline 2>&1 | grep -E "Summary" | tail -1)
cp RESULT/demo_seeded.rs tests/demo_seeded.rs
with=$(cargo test --offline --test demo_seeded 2>&1 | grep -E "^test result" | tail -1)
git checkout -q -- src
without=$(cargo test --offline --test demo_seeded 2>&1 | grep -E "^test result" | tail -1)
rm -f tests/demo_seeded.rs
echo "{\"id\":\"$P\",\"suite_with_change\":\"$suite\",\"demo_with_change\":\"$with\",\"demo_without_change\":\"$without\"}"
