#!/bin/bash
# usage: run_seeded_scratch.sh <patch-or-seeded-dir> <Cxx> [Cyy ...]
# Same judgement as run_seeded.sh, but without touching /repo (for use while a background `vp run` is reading /repo):
# a scratch worktree of /repo HEAD (/tmp/wt_eval) gets the patch, a scratch copy of the committed /verif (/tmp/vx)
# has its harness pointed at that worktree. Both are kept between calls for incremental builds; remove them with
#   git -C /repo worktree remove --force /tmp/wt_eval; rm -rf /tmp/vx
P=$1; shift
[ -d "$P" ] && P="$P/patch.diff"
[ -d /tmp/wt_eval ] || git -C /repo worktree add --detach /tmp/wt_eval HEAD -q || exit 2
git -C /tmp/wt_eval checkout -q --detach "$(git -C /repo rev-parse HEAD)" || exit 2
git -C /tmp/wt_eval checkout -q -- . 
mkdir -p /tmp/vx
# (the committed state of /verif, so that edits in progress do not leak into the judgement)
rm -rf /tmp/vx/harness/src /tmp/vx/tools; git -C /verif archive HEAD -- check harness tools known_findings.json properties.jsonl MANIFEST.json | tar -x -C /tmp/vx
mkdir -p /tmp/vx/evidence
sed -i 's#path = "/repo"#path = "/tmp/wt_eval"#' /tmp/vx/harness/Cargo.toml
sed -i 's#^target-dir.*#target-dir = "/tmp/vx/target"#' /tmp/vx/harness/.cargo/config.toml
git -C /tmp/wt_eval apply "$P" || { echo "patch does not apply"; exit 2; }
trap 'git -C /tmp/wt_eval checkout -q -- .' EXIT
for c in "$@"; do
  out=$(cd /tmp/vx && VERIF_TARGET_DIR=/tmp/vx/target ./check "$c" --tier quick 2>&1); rc=$?
  sig=$(echo "$out" | grep -m1 "signature=" | sed 's/.*signature=//' | cut -c1-160)
  echo "$(basename $(dirname $P)) :: $c exit=$rc :: $sig"
done
