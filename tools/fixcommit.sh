#!/bin/bash
# usage: fixcommit.sh "<message>"  -- runs the baseline suite (hooks off) and commits /repo if it passes
set -e
cd /repo
cargo fmt --check
out=$(cargo nextest run --workspace --no-fail-fast --offline 2>&1 | tail -3)
echo "$out"
echo "$out" | grep -q "1464 passed, 0 skipped" || { echo "SUITE FAILED"; exit 1; }
git add -A
git commit -qm "$1"
git log --oneline | head -1
