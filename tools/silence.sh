#!/bin/bash
# usage: silence.sh <tier> <seed> [<seed> ...] -- run every registered check at the given seeds; print one line per run
tier=$1; shift
cd "$(dirname "$0")/.."
for seed in "$@"; do
  for p in C01 C02 C03 C04 C05 C06 C07 C08 C09 C10 C11 C12 C13 C14 C15 C16 C17 C18 C19 C20; do
    out=$(VERIF_SEED=$seed ./check $p --tier $tier 2>&1); rc=$?
    echo "seed=$seed $p exit=$rc $(echo "$out" | grep -c '^VIOLATION') violations $(echo "$out" | grep -c '^INCONCLUSIVE') inconclusive :: $(echo "$out" | tail -1 | cut -c1-120)"
    if [ $rc -ne 0 ]; then echo "$out" | grep -E "^VIOLATION|signature=|INCONCLUSIVE" | head -6; fi
  done
done
