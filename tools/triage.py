#!/usr/bin/env python3
"""triage.py <Cxx> [scale]  -- diagnostic: run a connection check reporting the rules of ALL properties, print one witness per signature"""
import sys, subprocess, json, glob, os, collections
prop=sys.argv[1]; scale=sys.argv[2] if len(sys.argv)>2 else '0.25'
for f in glob.glob('/verif/replays/%s-*'%prop): os.remove(f)
env=dict(os.environ, VERIF_ALLPROPS='1', VERIF_ROOT='/tmp/triage_root')
os.makedirs('/tmp/triage_root',exist_ok=True)
import shutil
shutil.copy('/verif/known_findings.json','/tmp/triage_root/known_findings.json')
for f in glob.glob('/tmp/triage_root/replays/*'): os.remove(f)
out=subprocess.run(['/verif/target/verif/mpcv',prop,'--scale',scale],env=env,capture_output=True,text=True).stdout
seen={}
for f in sorted(glob.glob('/tmp/triage_root/replays/%s-*'%prop)):
    v=json.load(open(f))
    if v['signature'] in seen: continue
    seen[v['signature']]=v
for sig,v in seen.items():
    print('='*100); print(sig); print(v['what'][:1500])
    h=v['witness'].get('history',[])
    print(json.dumps(v['witness'].get('scenario')))
    for l in h[-14:]: print('   ',l[:400])
print(out.splitlines()[-1] if out else '')
