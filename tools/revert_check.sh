#!/bin/bash
# usage: revert_check.sh <fix-commit> <Cxx> [Cyy...] -- reverse-apply a fix commit of /repo, run the checks at reduced scale, restore /repo
c=$1; shift
cd /repo || exit 2
git diff --quiet || { echo "/repo dirty"; exit 2; }
git show $c -- src > /tmp/rev_$c.diff
git apply -R /tmp/rev_$c.diff || { echo "cannot reverse-apply $c"; exit 2; }
trap 'git -C /repo checkout -- .; rm -f /tmp/rev_'$c'.diff' EXIT
( cd /verif/harness && CARGO_TARGET_DIR=/verif/target cargo build --offline --profile verif 2>&1 | grep -E "^error" -A5 )
for k in "$@"; do
  out=$(cd /verif && VERIF_ROOT=/tmp/triage_root ./target/verif/mpcv $k --scale ${SCALE:-0.3} 2>&1)
  echo "== revert $c : $k -> $(echo "$out" | grep -c '^VIOLATION') violations; $(echo "$out" | grep -m2 'signature=' | sed 's/.*signature=//' | tr '\n' ' ' | cut -c1-220)"
done
