#!/bin/bash
# usage: all_seeded.sh [scratch]  -- run every stored seeded change against the check of the property it targets
# (with "scratch": through run_seeded_scratch.sh, leaving /repo untouched). One line per change; exit 1 if any is missed.
cd "$(dirname "$0")/.."
runner=tools/run_seeded.sh; [ "$1" = scratch ] && runner=tools/run_seeded_scratch.sh
miss=0
for d in seeded/*/; do
  p=$(python3 -c "import json;print(json.load(open('$d/meta.json'))['breaks_property'])")
  line=$($runner /verif/$d $p 2>&1 | tail -1)
  echo "$line"
  echo "$line" | grep -q "exit=1" || miss=$((miss+1))
done
echo "missed=$miss"
[ $miss -eq 0 ]
