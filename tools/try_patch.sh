#!/bin/bash
# usage: try_patch.sh <patch.diff> <Cxx> [Cyy ...]   -- apply a seeded change to /repo, run quick checks, undo it.
# Evidence files of the claimed checks are saved and restored so a mutant run never leaves evidence behind.
P="$1"; shift
cd /repo || exit 2
git diff --quiet || { echo "/repo has uncommitted changes; refusing"; exit 2; }
git apply "$P" || { echo "patch does not apply"; exit 2; }
trap 'git -C /repo checkout -- . ; rm -rf /tmp/ev_backup.$$' EXIT
mkdir -p /tmp/ev_backup.$$ && cp -r /verif/evidence/. /tmp/ev_backup.$$/ 2>/dev/null
for c in "$@"; do
  out=$(cd /verif && VERIF_TARGET_DIR=/verif/target ./check "$c" --tier quick 2>&1); rc=$?
  echo "== $c exit=$rc"; echo "$out" | grep -E "VIOLATION|INCONCLUSIVE|rule=|KNOWN" | head -6
done
cp -r /tmp/ev_backup.$$/. /verif/evidence/ 2>/dev/null
