#!/usr/bin/env python3
"""Regenerates /verif/MANIFEST.json from the table below (one entry per claimed property)."""
import json, subprocess, os
ROOT = os.path.dirname(os.path.dirname(os.path.abspath(__file__)))
ids = [json.loads(l)['id'] for l in open(os.path.join(ROOT, 'properties.jsonl'))]

CLAIMED = {
 'C01': dict(
   technique='runtime monitoring: client+server pair simulator over byte pipes with seeded scheduler and transport-loss injection; offline delivery ledger (unique message ids: exactly-once / at-least-once / at-most-once, conservation at quiescence)',
   level='fault_enumeration',
   text='800 k (quick) / 30 M (thorough) executions of a real client object against a real server object: each side is fed only the bytes of the other side\'s RequestSendPacket events, in order, fragmented 1/2/3/frame/frame+1/all bytes; application workload with unique payload ids on both sides; transport losses at arbitrary byte offsets (inside fixed header / inside frame / at a boundary) with persistent-session resumption; virtual time for keep-alive. Oracle: no NotifyError from any recv, no keep-alive timeout on a live peer, quiescence within 64 x (messages in flight + 4) deliveries after faults stop, delivery ledger (QoS 2 exactly once, QoS 1 at least once and exactly once without loss, QoS 0 at most once, original topic), and at quiescence empty stores, no packet id in use and full Receive Maximum vacancy on both sides.',
   note='Trusted: the application model of DESIGN Appendix G (executes events faithfully, truthful session_present, respects the peer\'s Receive Maximum / Topic Alias Maximum, limits constant across resumes); losses only for persistent sessions; zero-latency network.',
   design='DESIGN.md §4 C01, Appendix G'),
 'C09': dict(
   technique='runtime monitoring: differential twins (one frame per buffer vs arbitrary chunking) + cursor-accounting monitor + exhaustive two-cut enumeration of short streams',
   level='exploration',
   text='250 k (quick) / 10 M (thorough) twin histories: identical operations, but twin A hands recv() exactly one whole frame per buffer (boundaries from an independent reference framer) and twin B an arbitrary partition (single bytes, frame-straddling pieces, empty buffers in between, several concatenated frames incl. invalid, mutated and over-long-length ones); operation-level normalised event traces must be equal and no call may cross a frame end. All pairs of 13-15 short frames x every pair of cut points are enumerated exhaustively for four role/version/id-width combinations; PacketBuilder::feed reassembly is compared byte for byte on streams with bodies of 0,1,127,128,16383,16384 bytes.',
   note='Trusted: the reference framer (MQTT §2.2) and the driver twins making identical non-chunking choices (separate PRNG streams).',
   design='DESIGN.md §4 C09'),
 'C10': dict(
   technique='runtime monitoring: differential twins (reused object vs fresh object with the same options / fresh object + exported session) over driver-generated first connections and seeded second-connection scripts',
   level='exploration',
   text='150 k (quick) / 8 M (thorough) (H,S) pairs: H = a monitored driver history with hostile traffic, any negotiated limits and every close path incl. loss in the middle of a frame; S = handshake with different limits + 5-20 operations exercising each limit. S may begin between the connections with alias-only QoS>0 publishes (no binding of the last connection may be usable). New session (clean start / session not present): traces of X (reused) and Y (fresh, same options) must be equal call by call, incl. public probes of store, handled set, vacancy and acquire results. Resumed session: Y first receives X\'s exported session. The hook digest only names the differing fields in a report.',
   note='Trusted: options are configuration scope; an Undetermined server keeps its adopted version; exchanges awaiting PUBCOMP without a stored PUBREL are not part of an export (such resume cases are skipped and counted).',
   design='DESIGN.md §4 C10'),
 'C11': dict(
   technique='runtime monitoring over an exhaustively enumerated finite matrix: reference gating table + twin for the as-if-not-made clause + autoref-specialisation probe for the compile-time table',
   level='exploration',
   text='All ~27 k cells {Client, Server, Any-as-client, Any-as-server} x {v3.1.1, v5.0, undetermined} x {disconnected, connecting, connected} x 31 send cells x persistent x offline x id width, each through send(), checked_send(concrete type) and checked_send(GenericPacket), and again on a primed session (handled inbound QoS 2 id, unacknowledged inbound QoS 1, stored PUBLISH and PUBREL, QoS 2 exchange awaiting its PUBREL) with acks that answer those exchanges, with v5 acks carrying a failure reason code, with a second PUBLISH/PUBREL on an id that already carries a stored exchange, and with a last CONNACK whose Session Expiry Interval (0 / 50) overrides what the CONNECT asked for: outcome must equal the gating table of DESIGN Appendix A; a refused call may only return errors plus the release of its own id and must leave the object indistinguishable (digest and a fixed continuation trace) from a twin that never made the call; `T: Sendable<Role, Id>` observed for all 29 types x 3 roles x 2 id types must equal the role table. Exhaustive.',
   note='Trusted: DESIGN Appendix A as the reading of "who may send what when"; queue-able cells may be queued or refused.',
   design='DESIGN.md §4 C11, Appendix A'),
 'C16': dict(
   technique='runtime monitoring: crash-point fault injection + differential twins (uncrashed original vs fresh object + export) + the C06/C07/C08/C12 monitors continuing on the restored object',
   level='fault_enumeration',
   text='120 k (quick) / 6 M (thorough) histories under persistent sessions are cut at a random crash point; the export (get_stored_packets, get_qos2_publish_handled) goes into a fresh object - before the handshake, or (one case in three) between CONNECT and CONNACK; both reconnect with session present and receive the same peer continuation (ack for every exported packet, duplicate/PUBREL/new message for every handled id): retransmission lists and continuation traces must be equal, exported ids must be unregisterable, and the store/id/flow/QoS2 monitors (initialised from the export) must stay silent on the restored object incl. 12 further random operations. Malformed exports (duplicate ids, wrong-version and QoS 0 entries) must be skipped without panic, leave a consistent store, and the kept entries must resume normally: retransmitted, acknowledged, released (E5).',
   note='Trusted: as C06-C08/C12; application-held ids die with the process; an exchange between PUBREC and the application\'s PUBREL is not part of the export.',
   design='DESIGN.md §4 C16'),
 'C17': dict(
   technique='runtime monitoring over an exhaustively enumerated finite matrix (receive gating) + differential twins (Undetermined vs fixed-version server)',
   level='exploration',
   text='All 1536 cells role path x version x status x 16 type nibbles x {minimal valid body, empty body} x id width on a primed persistent session: kinds the remote side may never send must yield an error, no delivery, no response and an unchanged session (public view and digest); CONNECT/CONNACK on an established connection likewise - reported as a protocol error by error kind and DISCONNECT reason code -, swept over the contents of the second handshake packet (every CONNACK reason/return code x session present x limit-renegotiating properties; CONNECT clean start x keep alive x client id x properties; ~900 cells). Undetermined server: all 256 values of the CONNECT protocol-level byte in both body layouts, and the 15 other packet types as first packet in the minimal form of both versions. 300 k (quick) / 10 M (thorough) seeded driver histories run against an Undetermined server and a fixed-version server must give identical call-by-call traces.',
   note='Trusted: DESIGN Appendix B.',
   design='DESIGN.md §4 C17, Appendix B'),
 'C05': dict(
   technique='runtime monitoring: online reference-model monitor over call records of seeded random histories (generic driver, hostile peer, small alphabets), every call under catch_unwind in the overflow-checks build (+ second build with assertions/overflow checks off)',
   level='exploration',
   text='700 k (quick) / 25 M (thorough) histories of contract-respecting local calls interleaved with arbitrary peer traffic (valid packets of every kind with boundary values, mutated frames, garbage, tiny Maximum Packet Size, Receive Maximum 1, Topic Alias Maximum 0) over all roles/versions/id widths/options; rules: no panic in any call, recv always progresses, every complete frame is delivered, answered as a duplicate or reported, a fresh handshake is accepted after every close (the driver reconnects after every close). One history in four lets the application break its contract (release of a busy id, another packet on a busy id); afterwards only the unconditional rules are judged. Directed: every property repeated 256 / 257 / 1000 times in every location, fed to a live connection (X11); frames with Remaining Length 268435455 / next to it (alias-only PUBLISH with a bound alias), 65 539 stored exchanges with u32 ids resumed and acknowledged one by one. Both build profiles.',
   note='Trusted: the reference model of DESIGN Appendix F (written from the property statements, updated only from calls, returned events and public probes) and the application contract of DESIGN §3.3. The hook digest is only used to read the in-use id set faster; the same clause is re-checked black-box by register()/release() probing on a sample of calls.',
   design='DESIGN.md §4 + Appendix F'),
 'C06': dict(
   technique='runtime monitoring: online reference-model monitor over call records of seeded random histories (generic driver, hostile peer, small alphabets), every call under catch_unwind in the overflow-checks build',
   level='exploration',
   text='Store shadow with allowed transitions: an accepted QoS>0 PUBLISH is sent or stored (S1), stored under a persistent session (S2), the exported store changes only for a cause (matching ack, erase, oversize drop, new session) and otherwise equals the shadow after EVERY call (S3), stored packets hold their id (S9), only the matching acknowledgement is accepted (S6), retransmission after CONNACK equals the store in order with DUP, full topic, no alias and before any other packet (S4), session-not-present empties it (S5), every PUBLISH/PUBREL requested for sending is exactly one well-formed frame of the announced size (S10), the PUBLISH passed on is the accepted one in QoS, RETAIN, DUP, id, payload and other properties (S13), the stored copy is the accepted packet: the topic the application meant, no alias, same QoS/RETAIN/payload/properties (S12). About 5% of the v5 packets carry a property section at the 127/128 length-prefix boundary, 8% of the acks carry properties, a fifth of the publishes carry RETAIN, 10% other PUBLISH properties.',
   note='Trusted: the reference model of DESIGN Appendix F (written from the property statements, updated only from calls, returned events and public probes) and the application contract of DESIGN §3.3. The hook digest is only used to read the in-use id set faster; the same clause is re-checked black-box by register()/release() probing on a sample of calls.',
   design='DESIGN.md §4 + Appendix F'),
 'C07': dict(
   technique='runtime monitoring: online reference-model monitor over call records of seeded random histories (generic driver, hostile peer, small alphabets), every call under catch_unwind in the overflow-checks build',
   level='exploration',
   text='Per-id handled bit: a QoS 2 PUBLISH is notified at most once between releases (Q1), get_qos2_publish_handled() equals the model set after every call (Q2), a validated first PUBLISH is never swallowed (Q3), duplicates are answered with PUBREC (Q4), an id in the handled set was notified - directed with alias-only QoS 2 PUBLISHes of 17 MB and 100 MB (Q5); histories include reconnects (clean/resumed), error PUBREC, manual and automatic responses, both versions and receiving roles.',
   note='Trusted: the reference model of DESIGN Appendix F (written from the property statements, updated only from calls, returned events and public probes) and the application contract of DESIGN §3.3. The hook digest is only used to read the in-use id set faster; the same clause is re-checked black-box by register()/release() probing on a sample of calls.',
   design='DESIGN.md §4 + Appendix F'),
 'C08': dict(
   technique='runtime monitoring: online reference-model monitor over call records of seeded random histories (generic driver, hostile peer, small alphabets), every call under catch_unwind in the overflow-checks build; black-box id probing',
   level='exploration',
   text='In-use set model + ownership model: acquire returns a free id (P1), register succeeds iff free and in range (P2), a release is announced only for an in-use id and never twice (P3), the real in-use set (hook, cross-checked by register/release probing) equals the model after EVERY call (P4: no silent free, no leak), completion/refusal/close release exactly the ids the statement names (P5a-c), release_packet_id is total incl. 0 and free ids (P7), an id is released by erase only when its exchange ends (P10), every stored packet dropped as oversize on resume has its id released (P9), the release-on-send-error hint names the packets own id iff the packet is not stored (P11). In a quarter of the histories a client reconnects without notify_closed(); from then on only the conservation rules P3/P4 are judged. Directed workloads: all 65535 ids in use at once / exhaustion / smallest-first (P6); one exchange in every stage (awaiting PUBACK, PUBREC, bare PUBREL, PUBREL with properties) resumed under 17 Maximum Packet Size values x automatic responses on/off.',
   note='Trusted: the reference model of DESIGN Appendix F (written from the property statements, updated only from calls, returned events and public probes) and the application contract of DESIGN §3.3. The hook digest is only used to read the in-use id set faster; the same clause is re-checked black-box by register()/release() probing on a sample of calls.',
   design='DESIGN.md §4 + Appendix F'),
 'C12': dict(
   technique='runtime monitoring: online reference-model monitor over call records of seeded random histories (generic driver, hostile peer, small alphabets), every call under catch_unwind in the overflow-checks build (+ second build with overflow checks off)',
   level='exploration',
   text='Outstanding-set model keyed by id: vacancy == max(0, M - |outstanding|) after every call on an established v5 connection and on a server between CONNECT and CONNACK, where publishes queued for the flush already count (F1), a QoS>0 PUBLISH is accepted iff below the limit (F2), Directed: windows of 255, 256, 257, 300, 1000 filled with fresh PUBLISHes on one connection, the next refused, drained in a scattered order (F5); 65 539 exchanges with u32 ids resumed under Receive Maximum 10 (F4). Inbound excess is not delivered, and a retransmission answered with PUBREC as a duplicate counts as an inbound exchange of this connection and is itself subject to the limit (F3); M in {1,2,3,65535}, resumes with stored packets, erasures, refusals, error acks.',
   note='Trusted: the reference model of DESIGN Appendix F (written from the property statements, updated only from calls, returned events and public probes) and the application contract of DESIGN §3.3. The hook digest is only used to read the in-use id set faster; the same clause is re-checked black-box by register()/release() probing on a sample of calls.',
   design='DESIGN.md §4 + Appendix F'),
 'C13': dict(
   technique='runtime monitoring: online reference-model monitor over call records of seeded random histories (generic driver, hostile peer, small alphabets), every call under catch_unwind in the overflow-checks build',
   level='exploration',
   text="Independent model of the RECEIVER's alias table built from the outgoing packet stream: an empty topic is only sent with an alias in range that an earlier PUBLISH actually sent on this connection bound to the intended topic (AL1-AL3), stored/retransmitted copies carry full topic and no alias (AL4), inbound aliased publishes resolve to what the peer bound or are rejected (AL5, AL6), an alias-only PUBLISH is accepted for queueing only with a binding made on the current connection and is stored under the topic the application meant (AL7, AL4); manual, auto-map, auto-replace, refusals in between, reconnects, server publishing before CONNACK; regulate_for_store() probed with every PUBLISH about to be sent (AL8); every packet delivered to the application serialises to size() bytes that frame themselves (AL9); the size-boundary workload of C14 with small follow-up publishes is judged under C13 too; directed: 45 topics in three scattered rounds through send tables of 2..40 entries.",
   note='Trusted: the reference model of DESIGN Appendix F (written from the property statements, updated only from calls, returned events and public probes) and the application contract of DESIGN §3.3. The hook digest is only used to read the in-use id set faster; the same clause is re-checked black-box by register()/release() probing on a sample of calls.',
   design='DESIGN.md §4 + Appendix F'),
 'C14': dict(
   technique='runtime monitoring: online reference-model monitor over call records of seeded random histories (generic driver, hostile peer, small alphabets), every call under catch_unwind in the overflow-checks build',
   level='exploration',
   text="size() of every packet in every RequestSendPacket (direct, automatic responses, retransmissions, alias-rewritten) against the limit captured from the peer's CONNECT/CONNACK (Z1), oversize stored packets dropped and released on resume (Z2), oversize inbound not delivered and answered with DISCONNECT 0x95 (Z3); limits drawn from 1..40 and 127..140 so that they straddle actual packet sizes constantly. Directed workloads: the limit at size-1/size/size+1 of the very packet for every send path, and PUBLISHes whose size / property section sits just below the points where Remaining Length (127/128, 16383/16384) or Property Length needs one more byte, limits plain+0..6, with automatic alias mapping (the rewritten packet grows by more than the three bytes of the alias).",
   note='Trusted: the reference model of DESIGN Appendix F (written from the property statements, updated only from calls, returned events and public probes) and the application contract of DESIGN §3.3. The hook digest is only used to read the in-use id set faster; the same clause is re-checked black-box by register()/release() probing on a sample of calls.',
   design='DESIGN.md §4 + Appendix F'),
 'C15': dict(
   technique='runtime monitoring: online reference-model monitor over call records of seeded random histories (generic driver, hostile peer, small alphabets), every call under catch_unwind in the overflow-checks build',
   level='exploration',
   text='Armed-set model driven by Reset/Cancel/fire: cancel only when armed (T1), nothing armed after close or DISCONNECT (T2), no local call arms a timer while disconnected (T3), client re-arms PINGREQ with the priority interval after every send incl. retransmission (T4), server re-arms 1.5 x keep-alive on every accepted packet and never for 0 (T5), PINGREQ arms / PINGRESP cancels the response timer (T6), each expiry has its specified effect (T7) - also when the peer has stalled 66-69 KiB into a frame -, intervals and timeouts up to u64::MAX ms pass through unchanged, a connection opened as a client never arms the PINGREQ receive timer - an Any-role object changes sides between its connections (T8).',
   note='Trusted: the reference model of DESIGN Appendix F (written from the property statements, updated only from calls, returned events and public probes) and the application contract of DESIGN §3.3. The hook digest is only used to read the in-use id set faster; the same clause is re-checked black-box by register()/release() probing on a sample of calls.',
   design='DESIGN.md §4 + Appendix F'),
 'C19': dict(
   technique='runtime monitoring: online reference-model monitor over call records of seeded random histories (generic driver, hostile peer, small alphabets), every call under catch_unwind in the overflow-checks build',
   level='exploration',
   text='Every event list of every history (hostile, timer, store and QoS 2 focused drivers): no RequestClose before a RequestSendPacket (K1), every DISCONNECT sent and every failing CONNACK accompanied by a close in the same list (K2), keep-alive timeout expiry on an established connection results in a close (K3). Directed: an oversize DISCONNECT of the application is refused under seven peer limits, then a keep-alive expiry / a DISCONNECT that fits / more traffic (K4).',
   note='Trusted: the reference model of DESIGN Appendix F (written from the property statements, updated only from calls, returned events and public probes) and the application contract of DESIGN §3.3. The hook digest is only used to read the in-use id set faster; the same clause is re-checked black-box by register()/release() probing on a sample of calls.',
   design='DESIGN.md §4 + Appendix F'),
 'C02': dict(
   technique='runtime monitoring: round-trip identities evaluated on generated packets built through the public builders (boundary-biased generator, 4 SSO feature builds in thorough), every call under catch_unwind',
   level='exploration',
   text='About 1.3 M (quick) / 60 M (thorough) abstract packets over all 29 kinds x u16/u32 ids x optional fields x property sets x lengths around 127/128, 16383/16384, 65535, 2097151/2 and the SSO thresholds are built through the public builders - every other one through a permuted sequence of builder / setter calls with overwritten decoy values (SubOpts setters, CONNECT and PUBLISH builders: a packet is a function of its fields, not of the calls that set them); for each: size()==len, vectored==contiguous serialisation, Remaining Length on the wire, parse(own bytes)==packet with consumed==body, store-packet wrapper, the v5 PUBLISH helper methods that recompute cached lengths, and builder states the abstract packets cannot express (will properties without a will: R9). Directed packets hit every VBI boundary exactly. Quick also runs the sso-lv10 build; thorough all four SSO builds.',
   note='Trusted: my generator only produces what the builders accept (builder rejections are counted in the evidence); Eq of library packets.',
   design='DESIGN.md §4 C02'),
 'C03': dict(
   technique='runtime monitoring: differential testing against an independently written reference encoder/decoder (refcodec.rs) + exhaustive byte enumeration of the numeric tables',
   level='exploration',
   text='Same packet domain as C02: library bytes == reference encoding byte for byte; the reference encoding parsed by the library and read back through every accessor == the abstract packet; the reference decoder reads the library bytes back to the same abstract packet. All 256 byte values of every reason-code enum and of PropertyId and the fixed-header nibbles are enumerated against tables transcribed from the OASIS texts.',
   note='Trusted: the reference codec and tables are my reading of OASIS MQTT 3.1.1 / 5.0 (they share no code or constants with the library).',
   design='DESIGN.md §4 C03'),
 'C04': dict(
   technique='runtime monitoring: catch_unwind + overflow-checks build as panic sanitizer, self-consistency and rebuild-through-builder oracles over exhaustive short inputs, structure-aware mutation and random bytes',
   level='exploration',
   text='All 29 parsers x id widths: every body of length <= 2 (quick) / <= 3 (thorough) exhaustively (PUBLISH x 16 flag nibbles), 1.5 M / 120 M structure-aware mutations of valid encodings (length fields +-1/0/max, non-minimal and over-long VBIs, id 0, QoS 3, properties duplicated/removed/re-tagged, invalid UTF-8, truncation, insertion), one property repeated 2..1000 times in every location, and random bodies; every accepted packet must report size()==len(serialisation), re-parse to an equal packet, expose only valid UTF-8 and be accepted by the public builder of its kind when its accessor values are fed back. Standalone decoders included (VBI compared with a reference decoder).',
   note='Trusted: rebuild oracle = builder acceptance of accessor values; bits that no accessor/builder can express are counted (noncanonical_accepted), not judged. Reads outside the input are panics in safe Rust (caught); the single unsafe block is covered by the UTF-8 re-validation monitor and by the Miri shards of the thorough tier.',
   design='DESIGN.md §4 C04'),
 'C18': dict(
   technique='runtime monitoring over an exhaustively enumerated finite table: reference acceptance table (MQTT 5.0 Table 2-4) vs builder path and parser path',
   level='exploration',
   text='All 1484 cells (27 property ids x 14 locations incl. will x count {1,2} x value classes incl. every forbidden value) are placed into a minimal valid carrier packet and run through the public builders and, reference-encoded, through the parsers; acceptance must equal the specification table on both paths. Exhaustive over the table. At most once also holds for 3, 255, 256, 257 and 1000 occurrences (T7). The authentication pair (method, data) is placed in both orders with User Properties in between (T6). Every cell is placed in two carriers: the minimal packet and one that differs in everything around the property list (failure reason codes, QoS 2/RETAIN/DUP, kept session with credentials, several entries). In addition every ordered pair of distinct property ids x 14 locations in the list shapes [A,B] [B,A] [A,B,B] [B,A,B] [B,B,A] (~5.8 k cells: the verdict on a property must not depend on its neighbour) and 20 k (quick) / 2 M (thorough) seeded random property lists of up to 6 entries.',
   note='Trusted: my transcription of Table 2-4 (DESIGN Appendix C). Builder cells whose value no public constructor can express are counted as inexpressible.',
   design='DESIGN.md §4 C18'),
 'C20': dict(
   technique='runtime monitoring: differential oracle (BTreeSet set model) + representation-invariant hook over exhaustive short operation sequences and long random sequences; every call under catch_unwind with overflow checks on',
   level='exploration',
   text='Every operation sequence up to depth 6-7 (quick) / 7-8 (thorough) over ranges of width 1-4 at 0, 1, mid-range and the type maximum of u8/u16/u32 and at both ends and around zero of the signed i8/i16 is executed against the real ValueAllocator and compared, answer by answer, with a set model; after every operation is_used (in and out of range), first_vacant, interval_count and the hook interval list are compared with the model (sorted, disjoint, maximally merged). Plus thousands of 1000-op random sequences over full u16/u32/i8/i16 ranges, long runs of used values with releases whose free neighbour is further than T::MAX away (A11), PacketIdManager and TopicAliasSend sequences, and full u16 exhaustion. Exhaustive within the stated bounds, sampling beyond them.',
   note='Trusted: the BTreeSet model as specification; deallocate of an out-of-range value may be refused by the range assertion or ignored, but must free nothing (A10). Hook verif_intervals is a plain copy of the pool.',
   design='DESIGN.md §4 C20'),
}

def hook_commits():
    try:
        out = subprocess.check_output(['git', '-C', '/repo', 'log', '--format=%H %s'], text=True)
        return [l.split()[0] for l in out.splitlines() if l.split(' ', 1)[1].startswith('verif-hooks')]
    except Exception:
        return []

checks = []
for i in ids:
    if i not in CLAIMED:
        continue
    c = CLAIMED[i]
    checks.append({
        'property_id': i,
        'quick_cmd': f'./check {i} --tier quick',
        'thorough_cmd': f'./check {i} --tier thorough',
        'evidence_file': f'/verif/evidence/{i}.json',
        'replay_cmd_template': f'./check {i} --replay {{path}}',
        'engine': 'mpcv',
        'level_claimed': {'category': c['level'], 'text': c['text'], 'design_ref': c['design']},
        'level_note': c['note'],
        'technique': c['technique'],
    })
m = {
 'version': 1,
 'setup_cmd': 'cd /verif/harness && export CARGO_NET_OFFLINE=true && CARGO_TARGET_DIR=/verif/target cargo build --offline --profile verif --no-default-features --features hooks, && CARGO_TARGET_DIR=/verif/target cargo build --offline --profile verifrel --no-default-features --features hooks, && CARGO_TARGET_DIR=/verif/target/sso-lv10 cargo build --offline --profile verif --no-default-features --features hooks,sso-lv10',
 'hooks': {
   'guard': 'cargo feature `verif-hooks` of mqtt-protocol-core (off by default)',
   'enable': 'the harness crate /verif/harness depends on /repo by path with feature hooks -> mqtt-protocol-core/verif-hooks; ./check builds with it and falls back to a hook-less build if that fails',
   'baseline_off_cmd': 'cd /repo && cargo nextest run --workspace --no-fail-fast --offline',
   'source_commits': hook_commits(),
   'add_only': True,
 },
 'engines': [{'name': 'mpcv', 'path': '/verif/harness', 'serves_properties': [c['property_id'] for c in checks],
              'kind_free_text': 'Rust harness: drivers + reference models (monitors) + differential twins + reference codec, run against the real library under catch_unwind in an assertions/overflow-checks build (and a second build with them off); Miri for the unsafe/UB side'}],
 'checks': checks,
 'not_applicable': [{'property_id': i, 'reason': 'check under construction in this session; not yet claimed'} for i in ids if i not in CLAIMED],
 'notes': 'Exit codes of every command: 0 held on everything observed, 1 VIOLATION (replay file under /verif/replays), 2 INCONCLUSIVE. known_findings.json lists repaired (fixed) and recorded (known) genuine defects.',
}
json.dump(m, open(os.path.join(ROOT, 'MANIFEST.json'), 'w'), indent=1)
print('claimed:', [c['property_id'] for c in checks])
