#!/usr/bin/env python3
"""Regenerates /verif/MANIFEST.json from the table below (one entry per claimed property)."""
import json, subprocess, os
ROOT = os.path.dirname(os.path.dirname(os.path.abspath(__file__)))
ids = [json.loads(l)['id'] for l in open(os.path.join(ROOT, 'properties.jsonl'))]

CLAIMED = {
 'C02': dict(
   technique='runtime monitoring: round-trip identities evaluated on generated packets built through the public builders (boundary-biased generator, 4 SSO feature builds in thorough), every call under catch_unwind',
   level='exploration',
   text='About 1.3 M (quick) / 60 M (thorough) abstract packets over all 29 kinds x u16/u32 ids x optional fields x property sets x lengths around 127/128, 16383/16384, 65535, 2097151/2 and the SSO thresholds are built through the public builders; for each: size()==len, vectored==contiguous serialisation, Remaining Length on the wire, parse(own bytes)==packet with consumed==body, store-packet wrapper, and the v5 PUBLISH helper methods that recompute cached lengths. Directed packets hit every VBI boundary exactly. Quick also runs the sso-lv10 build; thorough all four SSO builds.',
   note='Trusted: my generator only produces what the builders accept (builder rejections are counted in the evidence); Eq of library packets.',
   design='DESIGN.md §4 C02'),
 'C03': dict(
   technique='runtime monitoring: differential testing against an independently written reference encoder/decoder (refcodec.rs) + exhaustive byte enumeration of the numeric tables',
   level='exploration',
   text='Same packet domain as C02: library bytes == reference encoding byte for byte; the reference encoding parsed by the library and read back through every accessor == the abstract packet; the reference decoder reads the library bytes back to the same abstract packet. All 256 byte values of every reason-code enum and of PropertyId and the fixed-header nibbles are enumerated against tables transcribed from the OASIS texts.',
   note='Trusted: the reference codec and tables are my reading of OASIS MQTT 3.1.1 / 5.0 (they share no code or constants with the library).',
   design='DESIGN.md §4 C03'),
 'C04': dict(
   technique='runtime monitoring: catch_unwind + overflow-checks build as panic sanitizer, self-consistency and rebuild-through-builder oracles over exhaustive short inputs, structure-aware mutation and random bytes',
   level='exploration',
   text='All 29 parsers x id widths: every body of length <= 2 (quick) / <= 3 (thorough) exhaustively (PUBLISH x 16 flag nibbles), 1.5 M / 120 M structure-aware mutations of valid encodings (length fields +-1/0/max, non-minimal and over-long VBIs, id 0, QoS 3, properties duplicated/removed/re-tagged, invalid UTF-8, truncation, insertion) and random bodies; every accepted packet must report size()==len(serialisation), re-parse to an equal packet, expose only valid UTF-8 and be accepted by the public builder of its kind when its accessor values are fed back. Standalone decoders included (VBI compared with a reference decoder).',
   note='Trusted: rebuild oracle = builder acceptance of accessor values; bits that no accessor/builder can express are counted (noncanonical_accepted), not judged. Reads outside the input are panics in safe Rust (caught); the single unsafe block is covered by the UTF-8 re-validation monitor and by the Miri shards of the thorough tier.',
   design='DESIGN.md §4 C04'),
 'C18': dict(
   technique='runtime monitoring over an exhaustively enumerated finite table: reference acceptance table (MQTT 5.0 Table 2-4) vs builder path and parser path',
   level='exploration',
   text='All 1484 cells (27 property ids x 14 locations incl. will x count {1,2} x value classes incl. every forbidden value) are placed into a minimal valid carrier packet and run through the public builders and, reference-encoded, through the parsers; acceptance must equal the specification table on both paths. Exhaustive over the table.',
   note='Trusted: my transcription of Table 2-4 (DESIGN Appendix C). Builder cells whose value no public constructor can express are counted as inexpressible.',
   design='DESIGN.md §4 C18'),
 'C20': dict(
   technique='runtime monitoring: differential oracle (BTreeSet set model) + representation-invariant hook over exhaustive short operation sequences and long random sequences; every call under catch_unwind with overflow checks on',
   level='exploration',
   text='Every operation sequence up to depth 6-7 (quick) / 7-8 (thorough) over ranges of width 1-4 at 0, 1, mid-range and the type maximum of u8/u16/u32 is executed against the real ValueAllocator and compared, answer by answer, with a set model; after every operation is_used (in and out of range), first_vacant, interval_count and the hook interval list are compared with the model (sorted, disjoint, maximally merged). Plus thousands of 1000-op random sequences over full u16/u32 ranges, PacketIdManager and TopicAliasSend sequences, and full u16 exhaustion. Exhaustive within the stated bounds, sampling beyond them.',
   note='Trusted: the BTreeSet model as specification; deallocate only called with in-range values. Hook verif_intervals is a plain copy of the pool.',
   design='DESIGN.md §4 C20'),
}

def hook_commits():
    try:
        out = subprocess.check_output(['git', '-C', '/repo', 'log', '--format=%H %s'], text=True)
        return [l.split()[0] for l in out.splitlines() if l.split(' ', 1)[1].startswith('verif-hooks')]
    except Exception:
        return []

checks = []
for i in ids:
    if i not in CLAIMED:
        continue
    c = CLAIMED[i]
    checks.append({
        'property_id': i,
        'quick_cmd': f'./check {i} --tier quick',
        'thorough_cmd': f'./check {i} --tier thorough',
        'evidence_file': f'/verif/evidence/{i}.json',
        'replay_cmd_template': f'./check {i} --replay {{path}}',
        'engine': 'mpcv',
        'level_claimed': {'category': c['level'], 'text': c['text'], 'design_ref': c['design']},
        'level_note': c['note'],
        'technique': c['technique'],
    })
m = {
 'version': 1,
 'setup_cmd': 'cd /verif/harness && CARGO_NET_OFFLINE=true CARGO_TARGET_DIR=/verif/target cargo build --offline --profile verif --no-default-features --features hooks,',
 'hooks': {
   'guard': 'cargo feature `verif-hooks` of mqtt-protocol-core (off by default)',
   'enable': 'the harness crate /verif/harness depends on /repo by path with feature hooks -> mqtt-protocol-core/verif-hooks; ./check builds with it and falls back to a hook-less build if that fails',
   'baseline_off_cmd': 'cd /repo && cargo nextest run --workspace --no-fail-fast --offline',
   'source_commits': hook_commits(),
   'add_only': True,
 },
 'engines': [{'name': 'mpcv', 'path': '/verif/harness', 'serves_properties': [c['property_id'] for c in checks],
              'kind_free_text': 'Rust harness: drivers + reference models (monitors) + differential twins + reference codec, run against the real library under catch_unwind in an assertions/overflow-checks build (and a second build with them off); Miri for the unsafe/UB side'}],
 'checks': checks,
 'not_applicable': [{'property_id': i, 'reason': 'check under construction in this session; not yet claimed'} for i in ids if i not in CLAIMED],
 'notes': 'Exit codes of every command: 0 held on everything observed, 1 VIOLATION (replay file under /verif/replays), 2 INCONCLUSIVE. known_findings.json lists repaired (fixed) and recorded (known) genuine defects.',
}
json.dump(m, open(os.path.join(ROOT, 'MANIFEST.json'), 'w'), indent=1)
print('claimed:', [c['property_id'] for c in checks])
