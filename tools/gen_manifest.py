#!/usr/bin/env python3
"""Regenerates /verif/MANIFEST.json from the table below (one entry per claimed property)."""
import json, subprocess, os
ROOT = os.path.dirname(os.path.dirname(os.path.abspath(__file__)))
ids = [json.loads(l)['id'] for l in open(os.path.join(ROOT, 'properties.jsonl'))]

CLAIMED = {
 'C20': dict(
   technique='runtime monitoring: differential oracle (BTreeSet set model) + representation-invariant hook over exhaustive short operation sequences and long random sequences; every call under catch_unwind with overflow checks on',
   level='exploration',
   text='Every operation sequence up to depth 6-7 (quick) / 7-8 (thorough) over ranges of width 1-4 at 0, 1, mid-range and the type maximum of u8/u16/u32 is executed against the real ValueAllocator and compared, answer by answer, with a set model; after every operation is_used (in and out of range), first_vacant, interval_count and the hook interval list are compared with the model (sorted, disjoint, maximally merged). Plus thousands of 1000-op random sequences over full u16/u32 ranges, PacketIdManager and TopicAliasSend sequences, and full u16 exhaustion. Exhaustive within the stated bounds, sampling beyond them.',
   note='Trusted: the BTreeSet model as specification; deallocate only called with in-range values. Hook verif_intervals is a plain copy of the pool.',
   design='DESIGN.md §4 C20'),
}

def hook_commits():
    try:
        out = subprocess.check_output(['git', '-C', '/repo', 'log', '--format=%H %s'], text=True)
        return [l.split()[0] for l in out.splitlines() if l.split(' ', 1)[1].startswith('verif-hooks')]
    except Exception:
        return []

checks = []
for i in ids:
    if i not in CLAIMED:
        continue
    c = CLAIMED[i]
    checks.append({
        'property_id': i,
        'quick_cmd': f'./check {i} --tier quick',
        'thorough_cmd': f'./check {i} --tier thorough',
        'evidence_file': f'/verif/evidence/{i}.json',
        'replay_cmd_template': f'./check {i} --replay {{path}}',
        'engine': 'mpcv',
        'level_claimed': {'category': c['level'], 'text': c['text'], 'design_ref': c['design']},
        'level_note': c['note'],
        'technique': c['technique'],
    })
m = {
 'version': 1,
 'setup_cmd': 'cd /verif/harness && CARGO_NET_OFFLINE=true CARGO_TARGET_DIR=/verif/target cargo build --offline --profile verif --no-default-features --features hooks,',
 'hooks': {
   'guard': 'cargo feature `verif-hooks` of mqtt-protocol-core (off by default)',
   'enable': 'the harness crate /verif/harness depends on /repo by path with feature hooks -> mqtt-protocol-core/verif-hooks; ./check builds with it and falls back to a hook-less build if that fails',
   'baseline_off_cmd': 'cd /repo && cargo nextest run --workspace --no-fail-fast --offline',
   'source_commits': hook_commits(),
   'add_only': True,
 },
 'engines': [{'name': 'mpcv', 'path': '/verif/harness', 'serves_properties': [c['property_id'] for c in checks],
              'kind_free_text': 'Rust harness: drivers + reference models (monitors) + differential twins + reference codec, run against the real library under catch_unwind in an assertions/overflow-checks build (and a second build with them off); Miri for the unsafe/UB side'}],
 'checks': checks,
 'not_applicable': [{'property_id': i, 'reason': 'check under construction in this session; not yet claimed'} for i in ids if i not in CLAIMED],
 'notes': 'Exit codes of every command: 0 held on everything observed, 1 VIOLATION (replay file under /verif/replays), 2 INCONCLUSIVE. known_findings.json lists repaired (fixed) and recorded (known) genuine defects.',
}
json.dump(m, open(os.path.join(ROOT, 'MANIFEST.json'), 'w'), indent=1)
print('claimed:', [c['property_id'] for c in checks])
