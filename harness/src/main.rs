//! verif <Cxx> --tier quick|thorough [--seed N] [--replay FILE] [--part-out FILE] [--scale F]
//!
//! exit 0: every rule held on everything observed (KNOWN-FINDING lines possible)
//! exit 1: "VIOLATION property=<id> replay=<path>" for a violation not listed as known
//! exit 2: "INCONCLUSIVE property=<id> reason=..." (harness problem, floor not met, watchdog)


use mpcv_lib::{checks, findings, guard};
use mpcv_lib::report::{Ctx, Report, Tier, Violation};
use serde_json::{json, Value};
use std::time::Instant;

fn verif_root() -> String {
    std::env::var("VERIF_ROOT").unwrap_or_else(|_| "/verif".to_string())
}

fn usage() -> ! {
    eprintln!("usage: verif <C01..C20> [--tier quick|thorough] [--seed N] [--replay FILE] [--part-out FILE] [--scale F] [--threads N]");
    std::process::exit(2);
}

fn violation_json(v: &Violation) -> Value {
    json!({"property": v.property, "rule": v.rule, "signature": v.signature, "what": v.what,
           "witness": v.witness, "case": [v.case.0, v.case.1]})
}

fn main() {
    let args: Vec<String> = std::env::args().collect();
    if args.len() < 2 {
        usage();
    }
    let prop = args[1].to_uppercase();
    let mut tier = match std::env::var("VERIF_TIER").ok().as_deref() {
        Some("thorough") => Tier::Thorough,
        _ => Tier::Quick,
    };
    let mut seed: u64 = std::env::var("VERIF_SEED").ok().and_then(|s| s.trim().parse::<i64>().ok()).map(|v| v as u64).unwrap_or(1);
    let mut replay_file: Option<String> = None;
    let mut part_out: Option<String> = None;
    let mut scale: f64 = std::env::var("VERIF_SCALE").ok().and_then(|s| s.parse().ok()).unwrap_or(1.0);
    let mut threads: usize = std::thread::available_parallelism().map(|n| n.get()).unwrap_or(4);
    let mut i = 2;
    while i < args.len() {
        match args[i].as_str() {
            "--tier" => {
                i += 1;
                tier = match args.get(i).map(|s| s.as_str()) {
                    Some("quick") => Tier::Quick,
                    Some("thorough") => Tier::Thorough,
                    _ => usage(),
                };
            }
            "--seed" => {
                i += 1;
                seed = args.get(i).and_then(|s| s.parse::<i64>().ok()).map(|v| v as u64).unwrap_or_else(|| usage());
            }
            "--replay" => {
                i += 1;
                replay_file = Some(args.get(i).cloned().unwrap_or_else(|| usage()));
            }
            "--part-out" => {
                i += 1;
                part_out = Some(args.get(i).cloned().unwrap_or_else(|| usage()));
            }
            "--scale" => {
                i += 1;
                scale = args.get(i).and_then(|s| s.parse().ok()).unwrap_or_else(|| usage());
            }
            "--threads" => {
                i += 1;
                threads = args.get(i).and_then(|s| s.parse().ok()).unwrap_or_else(|| usage());
            }
            _ => usage(),
        }
        i += 1;
    }
    let profile = if cfg!(debug_assertions) { "verif(assertions+overflow-checks on)" } else { "verifrel(assertions+overflow-checks off)" };
    let mut features = Vec::new();
    if cfg!(feature = "hooks") {
        features.push("hooks");
    }
    for (f, on) in [
        ("sso-min-32bit", cfg!(feature = "sso-min-32bit")),
        ("sso-min-64bit", cfg!(feature = "sso-min-64bit")),
        ("sso-lv10", cfg!(feature = "sso-lv10")),
        ("sso-lv20", cfg!(feature = "sso-lv20")),
    ] {
        if on {
            features.push(f);
        }
    }
    let mut replay = None;
    if let Some(f) = &replay_file {
        let txt = std::fs::read_to_string(f).unwrap_or_else(|e| {
            println!("INCONCLUSIVE property={} reason=cannot read replay file: {}", prop, e);
            std::process::exit(2);
        });
        let v: Value = serde_json::from_str(&txt).unwrap_or(Value::Null);
        seed = v["seed"].as_u64().unwrap_or(seed);
        if v["tier"].as_str() == Some("thorough") {
            tier = Tier::Thorough;
        } else {
            tier = Tier::Quick;
        }
        scale = v["scale"].as_f64().unwrap_or(1.0);
        let c = &v["case"];
        replay = Some((c[0].as_u64().unwrap_or(0), c[1].as_u64().unwrap_or(0)));
    }
    let ctx = Ctx {
        prop: prop.clone(),
        tier,
        seed,
        threads,
        replay,
        scale,
        profile: profile.to_string(),
        features: features.join(","),
    };
    guard::install();
    let t0 = Instant::now();
    let rep: Report = match checks::dispatch(&ctx) {
        Some(r) => r,
        None => {
            println!("INCONCLUSIVE property={} reason=no such check", prop);
            std::process::exit(2);
        }
    };
    let wall = t0.elapsed().as_secs_f64();

    // sub-run for another build (profile / feature set): dump the report and leave the verdict to the main run
    if let Some(po) = part_out {
        let v = json!({
            "profile": ctx.profile, "features": ctx.features,
            "evaluations": rep.evaluations, "distinct": rep.distinct.len(), "api_calls": rep.api_calls,
            "rule_hits": rep.rule_hits, "counters": rep.counters,
            "violations": rep.violations.iter().map(violation_json).collect::<Vec<_>>(),
            "inconclusive": rep.inconclusive, "wall_s": wall, "seed": seed, "tier": tier.name(), "scale": scale,
        });
        std::fs::write(&po, serde_json::to_string_pretty(&v).unwrap()).expect("write part");
        return;
    }

    // parts written by sub-runs of other builds (the ./check script passes their paths)
    let mut part_vals: Vec<Value> = Vec::new();
    if let Ok(list) = std::env::var("VERIF_PARTS") {
        for p in list.split(':').filter(|s| !s.is_empty()) {
            match std::fs::read_to_string(p).ok().and_then(|t| serde_json::from_str::<Value>(&t).ok()) {
                Some(v) => part_vals.push(v),
                None => {
                    println!("INCONCLUSIVE property={} reason=sub-run result {} missing or unreadable", prop, p);
                    std::process::exit(2);
                }
            }
        }
    }

    let root = verif_root();
    // Miri shards (thorough tier): a failed shard or an undefined-behaviour report is a violation; a run that
    // did not complete is inconclusive
    let mut miri_val: Option<Value> = None;
    let mut miri_violation: Option<String> = None;
    let mut miri_inconclusive: Option<String> = None;
    if let Ok(p) = std::env::var("VERIF_MIRI") {
        match std::fs::read_to_string(&p).ok().and_then(|t| serde_json::from_str::<Value>(&t).ok()) {
            Some(v) => {
                let failed = v["shards_failed"].as_u64().unwrap_or(0);
                let ub = v["undefined_behaviour_reports"].as_u64().unwrap_or(0);
                if v["ran"].as_u64() != Some(1) {
                    miri_inconclusive = Some(format!("Miri run did not complete (see {})", v["log"].as_str().unwrap_or("")));
                } else if failed > 0 || ub > 0 {
                    miri_violation = Some(v["log"].as_str().unwrap_or("").to_string());
                }
                miri_val = Some(v);
            }
            None => miri_inconclusive = Some("Miri result file unreadable".into()),
        }
    }
    let known = findings::load(&format!("{}/known_findings.json", root));
    let mut exit_code = 0;
    let mut known_seen: Vec<String> = Vec::new();
    let mut new_violations = 0;
    let mut all_viol: Vec<(Value, String)> = rep.violations.iter().map(|v| (violation_json(v), ctx.profile.clone())).collect();
    for pv in &part_vals {
        if let Some(arr) = pv["violations"].as_array() {
            for v in arr {
                all_viol.push((v.clone(), format!("{} [{}]", pv["profile"].as_str().unwrap_or(""), pv["features"].as_str().unwrap_or(""))));
            }
        }
    }
    let mut n = 0;
    for (v, prof) in &all_viol {
        let sig = v["signature"].as_str().unwrap_or("");
        let vprop = v["property"].as_str().unwrap_or(&prop);
        if let Some(f) = findings::is_known(&known, vprop, sig) {
            if !known_seen.contains(&f.signature) {
                known_seen.push(f.signature.clone());
                println!("KNOWN-FINDING: property={} {} [{}]", vprop, f.what, f.signature);
            }
            continue;
        }
        new_violations += 1;
        exit_code = 1;
        if replay_file.is_none() {
            let dir = format!("{}/replays", root);
            let _ = std::fs::create_dir_all(&dir);
            let path = format!("{}/{}-{}-{}.json", dir, prop, seed, n);
            n += 1;
            let mut o = v.clone();
            o["seed"] = json!(seed);
            o["tier"] = json!(tier.name());
            o["scale"] = json!(scale);
            o["build"] = json!(prof);
            let _ = std::fs::write(&path, serde_json::to_string_pretty(&o).unwrap());
            println!("VIOLATION property={} replay={}", vprop, path);
        } else {
            println!("VIOLATION property={} replay={}", vprop, replay_file.as_ref().unwrap());
        }
        println!("  rule={} signature={}", v["rule"].as_str().unwrap_or(""), sig);
        println!("  {}", v["what"].as_str().unwrap_or(""));
    }
    if let Some(log) = &miri_violation {
        if replay_file.is_none() {
            exit_code = 1;
            new_violations += 1;
            println!("VIOLATION property={} replay={}", prop, log);
            println!("  rule=miri-shards signature={}.miri-shard-failed", prop);
        }
    }
    let mut inconclusive = rep.inconclusive.clone();
    if let Some(m) = miri_inconclusive {
        inconclusive.push(m);
    }
    for pv in &part_vals {
        if let Some(arr) = pv["inconclusive"].as_array() {
            for x in arr {
                inconclusive.push(format!("[{}] {}", pv["profile"].as_str().unwrap_or(""), x.as_str().unwrap_or("")));
            }
        }
    }
    if replay_file.is_some() {
        if exit_code == 0 {
            println!("replay: no violation reproduced ({} cases)", rep.evaluations);
        }
        std::process::exit(exit_code);
    }
    if exit_code == 0 && !inconclusive.is_empty() {
        for r in &inconclusive {
            println!("INCONCLUSIVE property={} reason={}", prop, r);
        }
        exit_code = 2;
    }

    // evidence
    let mut cov = rep.coverage_json();
    if let Value::Object(m) = &mut cov {
        m.insert("profiles".into(), json!([ctx.profile]));
        m.insert("feature_sets".into(), json!([ctx.features]));
        if !part_vals.is_empty() {
            let mut ev = rep.evaluations;
            let mut parts = Vec::new();
            for pv in &part_vals {
                ev += pv["evaluations"].as_u64().unwrap_or(0);
                parts.push(json!({"profile": pv["profile"], "features": pv["features"], "evaluations": pv["evaluations"],
                    "distinct": pv["distinct"], "api_calls": pv["api_calls"], "rule_hits": pv["rule_hits"], "wall_s": pv["wall_s"],
                    "violations": pv["violations"].as_array().map(|a| a.len()).unwrap_or(0)}));
            }
            m.insert("evaluations".into(), json!(ev));
            m.insert("evaluations_main_build".into(), json!(rep.evaluations));
            m.insert("other_builds".into(), Value::Array(parts));
        }
        if let Some(mv) = &miri_val {
            m.insert("miri".into(), mv.clone());
        }
        m.insert("known_findings_observed".into(), json!(known_seen));
        m.insert("verdict".into(), json!(match exit_code { 0 => "held on everything observed", 1 => "violated", _ => "inconclusive" }));
        if !inconclusive.is_empty() {
            m.insert("inconclusive_reasons".into(), json!(inconclusive));
        }
    }
    let evidence = json!({
        "property_id": prop,
        "tier": tier.name(),
        "seed": seed as i64,
        "level": if prop == "C16" || prop == "C01" { "fault_enumeration" } else { "exploration" },
        "coverage": cov,
        "assumptions": rep.assumptions,
        "wall_s": wall,
        "violations": new_violations,
    });
    let edir = format!("{}/evidence", root);
    let _ = std::fs::create_dir_all(&edir);
    std::fs::write(format!("{}/{}.json", edir, prop), serde_json::to_string_pretty(&evidence).unwrap()).expect("write evidence");
    println!(
        "{} {} seed={} evaluations={} distinct={} api_calls={} violations={} known={} wall={:.1}s",
        prop,
        tier.name(),
        seed,
        rep.evaluations,
        rep.distinct.len(),
        rep.api_calls,
        new_violations,
        known_seen.len(),
        wall
    );
    std::process::exit(exit_code);
}
