//! The generic driver: contract-respecting local calls x arbitrary peer traffic (DESIGN §3.3).
//! Executes a seeded history against one connection object, feeds every call record to the model.

use crate::apkt::*;
use crate::conn::*;
use crate::gen::{self, GenCfg};
use crate::model::*;
use crate::refcodec as rc;
use crate::rng::Rng;
use serde_json::{json, Value};
use std::collections::BTreeSet;

#[derive(Clone, Copy, Debug, PartialEq, Eq)]
pub enum Focus {
    General,
    Store,   // C06: publishes, acks, reconnects
    Qos2In,  // C07: inbound QoS2
    Ids,     // C08
    Flow,    // C12
    Alias,   // C13
    Size,    // C14
    Timers,  // C15
    Hostile, // C05
}

#[derive(Clone, Copy, Debug, PartialEq, Eq)]
pub enum ChunkMode {
    /// arbitrary partition of the fed bytes into recv() buffers
    Random,
    /// exactly one whole frame per recv() buffer (reference framer decides the boundaries)
    WholeFrames,
}

#[derive(Clone, Debug)]
pub struct Scenario {
    pub role: Role,
    pub idw: usize,
    pub ver: LVer,
    pub focus: Focus,
    pub max_ops: usize,
    /// probability (percent) that a peer frame is hostile (mutated / garbage / out of state)
    pub hostile_pct: u64,
    /// act as client (true) or server (false); fixed by role except for Any
    pub as_client: bool,
    /// protocol version the peer speaks to an Undetermined server
    pub speak: Ver,
    /// do nothing before the first CONNECT (used by the Undetermined-vs-fixed twin of C17)
    pub connect_first: bool,
}

#[derive(Clone, Debug)]
pub struct Step {
    pub call: String,
    pub events: String,
}

pub struct Outcome {
    pub trace: Vec<Step>,
    pub found: Vec<Found>,
    pub hits: std::collections::BTreeMap<&'static str, u64>,
    pub api_calls: u64,
    pub shape: u64,
    pub connections: u32,
    pub max_inflight: usize,
    pub frames: u64,
    pub nontrivial: bool,
    pub model_state: Value,
    pub counters: std::collections::BTreeMap<String, u64>,
    pub known_seen: Vec<Found>,
    pub op_trace: Vec<String>,
}

#[derive(Clone, Debug)]
enum Todo {
    Puback(u32),
    Pubrec(u32),
    Pubcomp(u32),
    Pubrel(u32),
    Suback(u32, usize),
    Unsuback(u32, usize),
    Pingresp,
}

pub struct Driver {
    pub conn: Box<dyn Conn>,
    pub model: Model,
    pub r: Rng,
    pub sc: Scenario,
    pub trace: Vec<Step>,
    pub sink: Sink,
    pub api_calls: u64,
    pub dead: bool,
    todo: Vec<Todo>,
    close_pending: bool,
    pub shape: u64,
    pub nontrivial: bool,
    last_clean: bool,
    pub counters: std::collections::BTreeMap<String, u64>,
    pub probe_every: u64,
    /// signatures of recorded (known) findings: the history continues past them (the model state stays
    /// consistent with the library for every one of them), they are reported separately
    pub known: std::sync::Arc<std::collections::HashSet<String>>,
    pub known_seen: Vec<Found>,
    pub chunk_mode: ChunkMode,
    /// separate PRNG for chunking so that twins differing only in chunking make the same other choices
    pub cut_rng: Rng,
    /// one entry per driver operation (a feed of several recv() calls is ONE entry with the concatenated events)
    pub op_trace: Vec<String>,
    /// probability (percent) that a peer feed consists of several concatenated frames
    pub multi_frame_pct: u64,
    /// an `Any`-role object may open its next connection from the other side (server after client, client after server)
    pub path_flip: bool,
    /// per-mille chance per step that the application breaks its contract (releases an id an exchange still owns, or
    /// reuses such an id in another packet); afterwards only the unconditional rules are judged (Sink::misused)
    pub misuse_pm: u64,
    /// per-mille chance that a client starts its next CONNECT right after a close request, without notify_closed()
    pub skip_close_pm: u64,
}

const TOPICS: [&str; 6] = ["a", "b", "c/d", "a", "b", "e/f/g"];

impl Driver {
    pub fn new(sc: Scenario, seed: u64) -> Self {
        let conn = new_conn(sc.role, sc.idw, sc.ver);
        let model = Model::new(sc.role, sc.idw, sc.ver);
        Driver {
            conn,
            model,
            r: Rng::new(seed),
            sc,
            trace: Vec::new(),
            sink: Sink::default(),
            api_calls: 0,
            dead: false,
            todo: Vec::new(),
            close_pending: false,
            shape: 0xcbf29ce484222325,
            nontrivial: false,
            last_clean: true,
            counters: Default::default(),
            probe_every: 8,
            known: Default::default(),
            known_seen: Vec::new(),
            chunk_mode: ChunkMode::Random,
            cut_rng: Rng::new(seed ^ 0xC0FFEE),
            op_trace: Vec::new(),
            multi_frame_pct: 0,
            path_flip: true,
            misuse_pm: 0,
            skip_close_pm: 0,
        }
    }
    fn bump(&mut self, k: &str) {
        *self.counters.entry(k.to_string()).or_insert(0) += 1;
    }
    fn mix(&mut self, x: u64) {
        self.shape = (self.shape ^ x).wrapping_mul(0x100000001b3);
    }

    fn after(&mut self, call: Call, events: Vec<Ev>) -> Vec<Ev> {
        self.api_calls += 1;
        let before = self.sink.found.len();
        self.model.on_call(&call, &events, &mut self.sink);
        if self.sink.found.len() == before && !self.model.lost {
            let bb = self.cut_rng.below(self.probe_every) == 0;
            self.model.post_checks(&call, &events, self.conn.as_mut(), &mut self.sink, bb);
        }
        let mut h = crate::rng::fnv(call_kind(&call).as_bytes());
        for e in &events {
            h = h.wrapping_mul(31).wrapping_add(match e {
                Ev::Send { pkt, .. } => 1 + pkt.kind().nibble() as u64,
                Ev::Recv { pkt, .. } => 20 + pkt.kind().nibble() as u64,
                Ev::Released(_) => 40,
                Ev::TimerReset { kind, .. } => 41 + *kind as u64,
                Ev::TimerCancel(k) => 45 + *k as u64,
                Ev::Error(x) => 50 + crate::rng::fnv(x.as_bytes()) % 97,
                Ev::Close => 49,
            });
        }
        self.mix(h);
        self.trace.push(Step { call: call.short(), events: evs_short(&normalise(&events)) });
        if !matches!(call, Call::Recv { .. }) {
            self.op_trace.push(format!("{} => {}", call.short(), evs_short(&normalise(&events))));
        }
        if !self.sink.found.is_empty() && self.sink.found.iter().all(|f| self.known.contains(&f.signature())) {
            let fs: Vec<Found> = self.sink.found.drain(..).collect();
            for f in fs {
                if !self.known_seen.iter().any(|k| k.signature() == f.signature()) {
                    self.known_seen.push(f);
                }
            }
        }
        if !self.sink.found.is_empty() || self.model.lost {
            self.dead = true;
        }
        // follow-ups the application owes
        for e in &events {
            match e {
                Ev::Close => self.close_pending = true,
                Ev::Recv { pkt, .. } => match pkt {
                    Pkt::Publish { qos: 1, id: Some(i), .. } if !self.model.auto_pub => self.todo.push(Todo::Puback(*i)),
                    Pkt::Publish { qos: 2, id: Some(i), .. } if !self.model.auto_pub => self.todo.push(Todo::Pubrec(*i)),
                    Pkt::Ack { kind: AckKind::Pubrel, id, .. } if !self.model.auto_pub => self.todo.push(Todo::Pubcomp(*id)),
                    Pkt::Ack { kind: AckKind::Pubrec, id, code, .. } if !self.model.auto_pub && code.map(|c| c < 0x80).unwrap_or(true) => self.todo.push(Todo::Pubrel(*id)),
                    Pkt::Subscribe { id, entries, .. } => self.todo.push(Todo::Suback(*id, entries.len())),
                    Pkt::Unsubscribe { id, entries, .. } => self.todo.push(Todo::Unsuback(*id, entries.len())),
                    Pkt::Pingreq { .. } if !self.model.auto_ping => self.todo.push(Todo::Pingresp),
                    Pkt::Disconnect { .. } => self.close_pending = true,
                    Pkt::Connack { code, .. } if *code != 0 => self.close_pending = true,
                    _ => {}
                },
                _ => {}
            }
        }
        if self.model.status == St::Cd && (self.model.out.len() + self.model.inn.len()) > 0 {
            self.nontrivial = true;
        }
        events
    }

    fn panic_found(&mut self, call: &Call, p: crate::guard::PanicInfo) {
        self.api_calls += 1;
        let input = match call {
            Call::Recv { bytes } => format!("frame-type={}", bytes.first().map(|b| b >> 4).unwrap_or(0)),
            _ => String::new(),
        };
        self.sink.fail(
            "C05",
            "X1-no-panic",
            format!("call={};msg={};{}", call_kind(call), p.class(), input),
            format!("{} panicked: {} at {} (model state {})", call.short(), p.message, p.location, self.model.state_json()),
        );
        self.trace.push(Step { call: call.short(), events: format!("PANIC: {}", p.message) });
        self.dead = true;
    }

    // ---- primitive calls ----------------------------------------------------------------------------

    pub fn send(&mut self, pkt: Pkt) -> Vec<Ev> {
        if self.dead {
            return vec![];
        }
        let via = match self.r.below(4) {
            0 => Via::Checked,
            1 => Via::CheckedGeneric,
            _ => Via::Dynamic,
        };
        let mut via = via;
        // a read-only accessor off the main path, probed with the very packet about to be sent
        if matches!(pkt, Pkt::Publish { ver: Ver::V5, .. }) && !self.sink.misused {
            match self.conn.regulate_for_store(&pkt) {
                Err(p) => {
                    self.sink.fail("C05", "X1-no-panic", "call=regulate_for_store".into(), p.message);
                }
                // (a packet the public builders refuse cannot be handed to the accessor either)
                Ok(Err(m)) if m == "not a v5 publish" => {}
                Ok(r) => self.model.check_regulate(&pkt, &r, &mut self.sink),
            }
        }
        let out = self.conn.send(&pkt, via);
        let out = match out {
            Ok(SendOutcome::NotSendable) => {
                // concrete type not Sendable for this role at compile time: the run-time path decides
                via = Via::Dynamic;
                self.conn.send(&pkt, via)
            }
            o => o,
        };
        let call = Call::Send { pkt: pkt.clone(), via };
        match out {
            Err(p) => {
                self.panic_found(&call, p);
                vec![]
            }
            Ok(SendOutcome::Events(evs)) => self.after(call, evs),
            Ok(SendOutcome::NotBuilt(_)) | Ok(SendOutcome::NotSendable) => {
                self.bump("send_not_built");
                vec![]
            }
        }
    }

    /// feed bytes in the given chunking; every recv() call is one call record
    pub fn feed(&mut self, bytes: &[u8], cuts: &[usize]) -> Vec<Ev> {
        let mut all = Vec::new();
        let mut start = 0;
        let mut bounds: Vec<usize> = cuts.iter().copied().filter(|c| *c > 0 && *c < bytes.len()).collect();
        if self.chunk_mode == ChunkMode::WholeFrames {
            // boundaries by the reference framer, continuing a frame left incomplete by earlier feeds
            bounds.clear();
            let mut virt: Vec<u8> = self.model.pending.clone();
            let skip = virt.len();
            virt.extend_from_slice(bytes);
            let mut pos = 0;
            loop {
                match rc::frame_at(&virt[pos..]) {
                    rc::Framed::Frame { total, .. } => {
                        pos += total;
                        if pos > skip {
                            bounds.push(pos - skip);
                        }
                    }
                    rc::Framed::OverlongLength { at } => {
                        pos += at;
                        if pos > skip {
                            bounds.push(pos - skip);
                        }
                    }
                    rc::Framed::Partial => break,
                }
                if pos >= virt.len() {
                    break;
                }
            }
        }
        bounds.sort();
        bounds.dedup();
        bounds.retain(|b| *b < bytes.len());
        bounds.push(bytes.len());
        let op_start = self.trace.len();
        for end in bounds {
            let chunk = &bytes[start..end];
            let mut off = 0;
            let mut guard_iter = 0;
            while off < chunk.len() && !self.dead {
                guard_iter += 1;
                match self.conn.recv(&chunk[off..]) {
                    Err(p) => {
                        let call = Call::Recv { bytes: chunk[off..].to_vec() };
                        self.panic_found(&call, p);
                        return all;
                    }
                    Ok((evs, n)) => {
                        if n == 0 && evs.is_empty() || guard_iter > chunk.len() + 4 {
                            self.sink.fail("C05", "X2-recv-makes-progress", String::new(), format!("recv() on {} unread bytes neither advanced nor returned events", chunk.len() - off));
                            self.dead = true;
                            return all;
                        }
                        let call = Call::Recv { bytes: chunk[off..off + n].to_vec() };
                        off += n;
                        all.extend(self.after(call, evs));
                    }
                }
            }
            start = end;
            // now and then an empty receive buffer between two pieces (a transport read that returned nothing)
            if self.chunk_mode == ChunkMode::Random && end < bytes.len() && !self.dead && self.cut_rng.below(4) == 0 {
                match self.conn.recv(&[]) {
                    Err(p) => {
                        let call = Call::Recv { bytes: vec![] };
                        self.panic_found(&call, p);
                        return all;
                    }
                    Ok((evs, _)) => {
                        let call = Call::Recv { bytes: vec![] };
                        all.extend(self.after(call, evs));
                    }
                }
            }
        }
        let _ = op_start;
        self.op_trace.push(format!("feed({}) => {}", hexs(bytes), evs_short(&normalise(&all))));
        all
    }
    pub fn feed_pkt(&mut self, p: &Pkt) -> Vec<Ev> {
        let mut b = rc::encode(p, self.sc.idw);
        if self.multi_frame_pct > 0 && self.model.status == St::Cd && self.r.below(100) < self.multi_frame_pct {
            // several frames in one stream: the chunking may then straddle frame boundaries
            for _ in 0..1 + self.r.usize(3) {
                let q = match self.r.below(4) {
                    0 => self.peer_ack_frame(),
                    1 => Some(Pkt::Pingresp { ver: self.ver() }),
                    _ => Some(self.peer_publish()),
                };
                if let Some(q) = q {
                    b.extend(rc::encode(&q, self.sc.idw));
                }
            }
        }
        let cuts = self.gen_cuts(b.len());
        self.feed(&b, &cuts)
    }
    /// restore an exported session into this (fresh) object and into the model
    pub fn restore(&mut self, packets: Vec<Pkt>, handled: BTreeSet<u32>) {
        if self.dead {
            return;
        }
        let call = Call::Restore { packets: packets.clone(), handled: handled.clone() };
        let r1 = self.conn.restore_packets(&packets);
        let r2 = self.conn.restore_handled(&handled);
        match (r1, r2) {
            (Ok(_), Ok(())) => {
                self.after(call, vec![]);
            }
            (Err(p), _) | (_, Err(p)) => self.panic_found(&call, p),
        }
    }
    /// copy the configuration options recorded by `m` onto this object (configuration scope survives everything)
    pub fn apply_options(&mut self, m: &Model) {
        if m.offline {
            self.set_opt(Opt::OfflinePublish, true);
        }
        if m.auto_pub {
            self.set_opt(Opt::AutoPubResponse, true);
        }
        if m.auto_ping {
            self.set_opt(Opt::AutoPingResponse, true);
        }
        if m.auto_map {
            self.set_opt(Opt::AutoMapTopicAlias, true);
        }
        if m.auto_replace {
            self.set_opt(Opt::AutoReplaceTopicAlias, true);
        }
        if m.resp_to != 0 {
            self.set_pingresp_timeout(m.resp_to);
        }
        if m.ping_override.is_some() {
            self.set_ping_interval(m.ping_override);
        }
    }
    pub fn step_once(&mut self) {
        if !self.dead {
            self.step();
        }
    }
    pub fn run_steps(&mut self, n: usize) {
        for _ in 0..n {
            if self.dead {
                break;
            }
            self.step();
        }
    }
    pub fn do_setup(&mut self) {
        self.setup();
    }
    pub fn finish_shape(&self) -> u64 {
        self.shape
    }
    pub fn nontrivial(&self) -> bool {
        self.nontrivial
    }
    fn gen_cuts(&mut self, len: usize) -> Vec<usize> {
        match self.cut_rng.below(20) {
            0..=13 => vec![],
            14..=17 => (0..1 + self.cut_rng.usize(2)).map(|_| self.cut_rng.usize(len.max(1))).collect(),
            18 => vec![1, 2],
            _ => (1..len).collect(),
        }
    }
    pub fn timer(&mut self, k: Timer) -> Vec<Ev> {
        if self.dead {
            return vec![];
        }
        let call = Call::Timer(k);
        match self.conn.notify_timer_fired(k) {
            Err(p) => {
                self.panic_found(&call, p);
                vec![]
            }
            Ok(e) => self.after(call, e),
        }
    }
    pub fn closed(&mut self) -> Vec<Ev> {
        if self.dead {
            return vec![];
        }
        self.close_pending = false;
        // pending reactions die with the transport, except a PUBREL of a persistent session
        let persistent = self.model.persistent;
        self.todo.retain(|t| matches!(t, Todo::Pubrel(_)) && persistent);
        match self.conn.notify_closed() {
            Err(p) => {
                self.panic_found(&Call::Closed, p);
                vec![]
            }
            Ok(e) => self.after(Call::Closed, e),
        }
    }
    pub fn acquire(&mut self) -> Option<u32> {
        if self.dead {
            return None;
        }
        match self.conn.acquire() {
            Err(p) => {
                self.panic_found(&Call::Acquire { result: Err("panic".into()) }, p);
                None
            }
            Ok(r) => {
                let id = r.clone().ok();
                self.after(Call::Acquire { result: r }, vec![]);
                id
            }
        }
    }
    pub fn register(&mut self, id: u32) -> bool {
        if self.dead {
            return false;
        }
        match self.conn.register(id) {
            Err(p) => {
                self.panic_found(&Call::Register { id, result: Err("panic".into()) }, p);
                false
            }
            Ok(r) => {
                let ok = r.is_ok();
                self.after(Call::Register { id, result: r }, vec![]);
                ok
            }
        }
    }
    pub fn release(&mut self, id: u32) {
        if self.dead {
            return;
        }
        match self.conn.release(id) {
            Err(p) => self.panic_found(&Call::Release { id }, p),
            Ok(e) => {
                self.after(Call::Release { id }, e);
            }
        }
    }
    pub fn erase(&mut self, id: u32) {
        if self.dead {
            return;
        }
        match self.conn.erase_stored(id) {
            Err(p) => self.panic_found(&Call::Erase { id }, p),
            Ok(e) => {
                self.after(Call::Erase { id }, e);
            }
        }
    }
    pub fn set_opt(&mut self, opt: Opt, on: bool) {
        if self.dead {
            return;
        }
        match self.conn.set_opt(opt, on) {
            Err(p) => self.panic_found(&Call::SetOpt { opt, on }, p),
            Ok(()) => {
                self.after(Call::SetOpt { opt, on }, vec![]);
            }
        }
    }
    pub fn set_ping_interval(&mut self, ms: Option<u64>) {
        if self.dead {
            return;
        }
        match self.conn.set_pingreq_send_interval(ms) {
            Err(p) => self.panic_found(&Call::SetPingInterval { ms }, p),
            Ok(e) => {
                self.after(Call::SetPingInterval { ms }, e);
            }
        }
    }
    pub fn set_pingresp_timeout(&mut self, ms: u64) {
        if self.dead {
            return;
        }
        match self.conn.set_pingresp_recv_timeout(ms) {
            Err(p) => self.panic_found(&Call::SetPingrespTimeout { ms }, p),
            Ok(()) => {
                self.after(Call::SetPingrespTimeout { ms }, vec![]);
            }
        }
    }

    // ---- packet construction helpers ----------------------------------------------------------------

    fn ver(&self) -> Ver {
        self.model.ver.unwrap_or(match self.sc.ver {
            LVer::V311 => Ver::V311,
            LVer::V5 => Ver::V5,
            LVer::Undetermined => self.sc.speak,
        })
    }
    fn limits_props(&mut self, for_connack: bool) -> Vec<Prop> {
        let mut ps = Vec::new();
        let f = self.sc.focus;
        let rm_p = if f == Focus::Flow { 90 } else { 45 };
        if self.r.below(100) < rm_p {
            ps.push(p_u16(P_RM, *self.r.pick(&[1u16, 1, 2, 2, 3, 65535])));
        }
        let tam_p = if f == Focus::Alias { 95 } else { 50 };
        if self.r.below(100) < tam_p {
            ps.push(p_u16(P_TAM, if self.r.below(30) == 0 { 65535 } else { *self.r.pick(&[0u16, 1, 2, 3, 3]) }));
        }
        let mps_p = if f == Focus::Size { 90 } else if f == Focus::Hostile { 40 } else { 25 };
        if self.r.below(100) < mps_p {
            let v = match self.r.below(10) {
                0 => self.r.range(1, 4) as u32,
                1..=6 => self.r.range(5, 40) as u32,
                _ => *self.r.pick(&[60u32, 100, 127, 128, 130, 131, 133, 136, 140, 268_435_455]),
            };
            ps.push(p_u32(P_MPS, v));
        }
        if self.r.below(100) < 40 {
            ps.push(p_u32(P_SEI, *self.r.pick(&[0u32, 50, 50, u32::MAX])));
        }
        if for_connack && self.r.below(100) < (if f == Focus::Timers { 50 } else { 20 }) {
            ps.push(p_u16(P_SKA, if self.r.below(15) == 0 { *self.r.pick(&[21846u16, 65535]) } else { *self.r.pick(&[0u16, 1, 7]) }));
        }
        ps
    }
    fn connect_pkt(&mut self) -> Pkt {
        let ver = self.ver();
        let clean = self.r.below(100) < 40;
        self.last_clean = clean;
        let ka = if self.r.below(25) == 0 { *self.r.pick(&[21845u16, 21846, 43691, 65535]) } else { *self.r.pick(&[0u16, 0, 1, 10]) };
        // (contents dimension: now and then a will and credentials - nothing in the connection layer may depend on them)
        let will = if self.r.below(12) == 0 {
            Some(Will { topic: b"w".to_vec(), payload: b"gone".to_vec(), qos: self.r.below(3) as u8, retain: self.r.bool(), props: if ver == Ver::V5 && self.r.bool() { vec![p_u32(24, 5)] } else { vec![] } })
        } else {
            None
        };
        let (user, pass) = if self.r.below(12) == 0 { (Some(b"u".to_vec()), if self.r.bool() { Some(b"p".to_vec()) } else { None }) } else { (None, None) };
        Pkt::Connect {
            ver,
            clean,
            keep_alive: ka,
            client_id: b"cid".to_vec(),
            will,
            user,
            pass,
            props: if ver == Ver::V5 { self.limits_props(false) } else { vec![] },
        }
    }
    fn connack_pkt(&mut self) -> Pkt {
        let ver = self.ver();
        let fail = self.r.below(100) < 6;
        let code = if fail { if ver == Ver::V5 { 0x87 } else { 5 } } else { 0 };
        // session present only if the CONNECT did not ask for a clean start
        let sp = !fail && !self.last_clean && self.r.below(100) < 75;
        let mut props = if ver == Ver::V5 && !fail { self.limits_props(true) } else { vec![] };
        // CONNACK{session present, Session Expiry Interval 0} is a recorded finding (the library wipes the
        // session on receipt): keep it rare so that histories are not all cut short by it
        if sp && self.r.below(100) < 92 {
            for p in props.iter_mut() {
                if p.id == P_SEI && p.val == PVal::U32(0) {
                    p.val = PVal::U32(50);
                }
            }
        }
        Pkt::Connack { ver, sp, code, props }
    }
    /// contents dimension: now and then push a v5.0 property section to the boundary where its length prefix grows
    /// from one to two bytes (a Topic Alias added or removed by the library then crosses it), or give an ack properties
    fn pad_props(&mut self, props: &mut Vec<Prop>, pct: u64) {
        if self.r.below(100) >= pct {
            return;
        }
        let cur: usize = props
            .iter()
            .map(|p| {
                let mut b = Vec::new();
                rc::encode_prop(p, &mut b);
                b.len()
            })
            .sum();
        let target = if self.r.below(4) == 0 { 4 + self.r.usize(30) } else { 122 + self.r.usize(10) };
        if target >= cur + 7 {
            let l = target - cur - 7;
            props.push(Prop { id: 38, val: PVal::Pair(b"k".to_vec(), vec![b'v'; l]) });
        }
    }
    /// contents dimension: the other PUBLISH properties travel with the message untouched (stored copy, retransmission,
    /// delivery), in their order, before or after the Topic Alias
    fn other_publish_props(&mut self, props: &mut Vec<Prop>) {
        if self.r.below(100) >= 10 {
            return;
        }
        for _ in 0..1 + self.r.usize(3) {
            let p = match self.r.below(7) {
                0 => p_byte(1, self.r.below(2) as u8),
                1 => p_u32(2, *self.r.pick(&[0u32, 30, u32::MAX])),
                2 => p_str(3, "text/plain"),
                3 => p_str(8, "re/ply"),
                4 => Prop { id: 9, val: PVal::Bin(vec![1, 2, 3]) },
                5 => Prop { id: 38, val: PVal::Pair(b"a".to_vec(), b"b".to_vec()) },
                _ => Prop { id: 38, val: PVal::Pair(vec![], vec![]) },
            };
            // (the once-only ones only once)
            if p.id != 38 && props.iter().any(|q| q.id == p.id) {
                continue;
            }
            if self.r.bool() {
                props.insert(0, p);
            } else {
                props.push(p);
            }
        }
    }
    fn our_publish(&mut self, qos: u8, id: Option<u32>) -> Pkt {
        let ver = self.ver();
        let mut topic = self.r.pick(&TOPICS).as_bytes().to_vec();
        let mut props = Vec::new();
        if ver == Ver::V5 {
            let alias_p = if self.sc.focus == Focus::Alias { 60 } else { 25 };
            if self.r.below(100) < alias_p {
                let a = if self.r.below(20) == 0 { *self.r.pick(&[9u16, 65535, 0]) } else { self.r.range(1, 3) as u16 };
                props.push(p_u16(P_TA, a));
                if self.r.below(100) < 45 {
                    topic.clear();
                }
            }
            self.other_publish_props(&mut props);
        }
        let pl = match self.r.below(8) {
            0 => 0,
            1 => 20,
            _ => 1 + self.r.usize(4),
        };
        if ver == Ver::V5 {
            self.pad_props(&mut props, 6);
        }
        // (contents dimension: RETAIN travels with the message - first transmission, stored copy, retransmission)
        let retain = self.r.below(5) == 0;
        Pkt::Publish { ver, dup: false, qos, retain, topic, id, props, payload: vec![b'p'; pl] }
    }
    fn peer_publish(&mut self) -> Pkt {
        let ver = self.ver();
        let qos = match self.sc.focus {
            Focus::Qos2In => *self.r.pick(&[2u8, 2, 2, 1, 0]),
            _ => self.r.below(3) as u8,
        };
        let max = self.model.max_id;
        let id = if qos > 0 { Some(*self.r.pick(&[1u32, 1, 2, 2, 3, max])) } else { None };
        let mut topic = self.r.pick(&TOPICS).as_bytes().to_vec();
        let mut props = Vec::new();
        if ver == Ver::V5 && self.r.below(100) < (if self.sc.focus == Focus::Alias { 60 } else { 20 }) {
            let a = if self.r.below(15) == 0 { *self.r.pick(&[9u16, 65535]) } else { self.r.range(1, 3) as u16 };
            props.push(p_u16(P_TA, a));
            if self.r.below(100) < 45 {
                topic.clear();
            }
        }
        if ver == Ver::V5 {
            self.other_publish_props(&mut props);
        }
        let dup = qos > 0 && self.r.below(4) == 0;
        if ver == Ver::V5 {
            self.pad_props(&mut props, 4);
        }
        let retain = self.r.below(5) == 0;
        Pkt::Publish { ver, dup, qos, retain, topic, id, props, payload: vec![b'q'; 1 + self.r.usize(3)] }
    }
    fn ack(&mut self, kind: AckKind, id: u32, fail: bool) -> Pkt {
        let ver = self.ver();
        let (code, props) = if ver == Ver::V5 {
            match (fail, self.r.below(3)) {
                (true, _) => (Some(if matches!(kind, AckKind::Pubrel | AckKind::Pubcomp) { 0x92 } else { *self.r.pick(&[0x80u8, 0x80, 0x83, 0x87, 0x90, 0x91, 0x97, 0x99]) }), if self.r.bool() { Some(vec![]) } else { None }),
                (false, 0) => (None, None),
                (false, 1) => (Some(if matches!(kind, AckKind::Puback | AckKind::Pubrec) && self.r.below(4) == 0 { 0x10 } else { 0 }), None),
                _ => (Some(0), Some(vec![])),
            }
        } else {
            (None, None)
        };
        // an ack with properties is bigger than the bare one: it can be oversize for the next connection's limit
        let (code, props) = if ver == Ver::V5 && self.r.below(100) < 8 {
            let mut ps = props.unwrap_or_default();
            self.pad_props(&mut ps, 100);
            (Some(code.unwrap_or(0)), Some(ps))
        } else {
            (code, props)
        };
        Pkt::Ack { ver, kind, id, code, props }
    }

    /// a frame the peer might send in answer to what is outstanding (matching / mismatching)
    fn peer_ack_frame(&mut self) -> Option<Pkt> {
        let ver = self.ver();
        let owners: Vec<(u32, Owner)> = self.model.owner.iter().map(|(k, v)| (*k, *v)).filter(|(_, o)| *o != Owner::App).collect();
        let mismatch = self.r.below(100) < 18;
        if owners.is_empty() || mismatch {
            // wrong kind / wrong id / duplicate
            let max = self.model.max_id;
            let id = *self.r.pick(&[1u32, 2, 3, 4, max]);
            let k = *self.r.pick(&[AckKind::Puback, AckKind::Pubrec, AckKind::Pubcomp]);
            if self.r.below(6) == 0 {
                return Some(if self.r.bool() { Pkt::Suback { ver, id, props: vec![], codes: vec![0] } } else { Pkt::Unsuback { ver, id, props: vec![], codes: if ver == Ver::V5 { vec![0] } else { vec![] } } });
            }
            let fail = self.r.below(5) == 0;
            return Some(self.ack(k, id, fail));
        }
        let (id, o) = *self.r.pick(&owners);
        let fail = ver == Ver::V5 && self.r.below(6) == 0;
        Some(match o {
            Owner::PubAck => self.ack(AckKind::Puback, id, fail),
            Owner::PubRec => self.ack(AckKind::Pubrec, id, fail),
            Owner::PubComp => self.ack(AckKind::Pubcomp, id, fail),
            Owner::RelPending => return None,
            Owner::SubAck => Pkt::Suback { ver, id, props: vec![], codes: vec![0] },
            Owner::UnsubAck => Pkt::Unsuback { ver, id, props: vec![], codes: if ver == Ver::V5 { vec![0] } else { vec![] } },
            Owner::App => return None,
        })
    }

    fn hostile_bytes(&mut self) -> Vec<u8> {
        let ver = self.ver();
        match self.r.below(10) {
            0 => {
                let n = 1 + self.r.usize(12);
                self.r.bytes(n)
            }
            1 => vec![self.r.byte(), 0x80, 0x80, 0x80, 0x80, 0x01],
            2 => {
                // valid packet of a random kind (possibly one this role may never receive)
                let cfg = GenCfg { big_pm: 0, huge_pm: 0, idw: self.sc.idw };
                let kinds = gen::all_kind_versions();
                let (k, v) = *self.r.pick(&kinds);
                let pv = if k == Kind::Auth { Ver::V5 } else if self.r.below(8) == 0 { v } else { ver };
                let p = gen::gen_packet(&mut self.r, &cfg, k, pv);
                rc::encode(&p, self.sc.idw)
            }
            3 => {
                // QoS>0 publish with packet id 0
                let mut p = self.peer_publish();
                if let Pkt::Publish { qos, id, .. } = &mut p {
                    if *qos == 0 {
                        *qos = 1;
                    }
                    *id = Some(0);
                }
                rc::encode(&p, self.sc.idw)
            }
            4 => {
                // second CONNECT / CONNACK on whatever state we are in
                if self.r.bool() {
                    rc::encode(&Pkt::Connect { ver, clean: self.r.bool(), keep_alive: 5, client_id: b"x".to_vec(), will: None, user: None, pass: None, props: if ver == Ver::V5 { vec![p_u16(P_TAM, 0), p_u16(P_RM, 1)] } else { vec![] } }, self.sc.idw)
                } else {
                    rc::encode(&Pkt::Connack { ver, sp: self.r.bool(), code: 0, props: vec![] }, self.sc.idw)
                }
            }
            _ => {
                // mutated valid frame of a kind that fits the state
                let p = if self.r.bool() { self.peer_publish() } else { self.peer_ack_frame().unwrap_or(Pkt::Pingresp { ver }) };
                let mut b = rc::encode(&p, self.sc.idw);
                for _ in 0..1 + self.r.usize(2) {
                    match self.r.below(5) {
                        0 => {
                            let o = self.r.usize(b.len());
                            b[o] ^= 1 << self.r.below(8);
                        }
                        1 => {
                            let o = self.r.usize(b.len() + 1);
                            b.truncate(o.max(1));
                        }
                        2 => {
                            let o = self.r.usize(b.len() + 1);
                            b.insert(o, *self.r.pick(&[0u8, 0x80, 0xFF]));
                        }
                        3 => {
                            if b.len() > 1 {
                                b[1] = b[1].wrapping_add(*self.r.pick(&[1u8, 255, 2]));
                            }
                        }
                        _ => {
                            let o = self.r.usize(b.len());
                            b[o] = *self.r.pick(&[0u8, 0xFF, 0x80, 3]);
                        }
                    }
                }
                b
            }
        }
    }

    // ---- history generation ---------------------------------------------------------------------------

    fn setup(&mut self) {
        let f = self.sc.focus;
        if self.r.below(100) < 55 {
            self.set_opt(Opt::AutoPubResponse, true);
        }
        if self.r.below(100) < 50 {
            self.set_opt(Opt::AutoPingResponse, true);
        }
        if self.r.below(100) < (if f == Focus::Store { 35 } else { 15 }) {
            self.set_opt(Opt::OfflinePublish, true);
        }
        if self.r.below(100) < (if f == Focus::Alias || f == Focus::Size { 40 } else { 12 }) {
            self.set_opt(Opt::AutoMapTopicAlias, true);
        } else if self.r.below(100) < (if f == Focus::Alias { 40 } else { 10 }) {
            self.set_opt(Opt::AutoReplaceTopicAlias, true);
        }
        if self.r.below(100) < (if f == Focus::Timers { 60 } else { 25 }) {
            let v = *self.r.pick(&[0u64, 500, 500, 500, 1u64 << 32, u64::MAX]);
            self.set_pingresp_timeout(v);
        }
        if self.r.below(100) < (if f == Focus::Timers { 35 } else { 8 }) {
            let v = *self.r.pick(&[None, Some(0u64), Some(3000), Some(3000), Some(1u64 << 32), Some(5_000_000_000), Some(u64::MAX)]);
            self.set_ping_interval(v);
        }
    }

    fn app_id(&mut self) -> Option<u32> {
        // an id owned by the application (acquired/registered, not yet used by an exchange)
        let free: Vec<u32> = self.model.owner.iter().filter(|(i, o)| **o == Owner::App && self.model.in_use.contains(i)).map(|(i, _)| *i).collect();
        if !free.is_empty() && self.r.bool() {
            return Some(*self.r.pick(&free));
        }
        if self.r.below(4) == 0 {
            let max = self.model.max_id;
            let id = if self.r.below(8) == 0 { *self.r.pick(&[30_000u32.min(max), 65_535u32.min(max), 65_536u32.min(max), 70_000u32.min(max), max - 1]) } else { *self.r.pick(&[1u32, 2, 3, 4, 5, max]) };
            if self.model.in_use.contains(&id) {
                return self.acquire();
            }
            if self.register(id) {
                return Some(id);
            }
            return None;
        }
        self.acquire()
    }

    fn do_todo(&mut self) -> bool {
        if self.todo.is_empty() {
            return false;
        }
        let i = self.r.usize(self.todo.len());
        let t = self.todo.remove(i);
        let ver = self.ver();
        match t {
            Todo::Puback(id) => {
                let p = self.ack(AckKind::Puback, id, false);
                self.send(p);
            }
            Todo::Pubrec(id) => {
                let fail = ver == Ver::V5 && self.r.below(5) == 0;
                let p = self.ack(AckKind::Pubrec, id, fail);
                self.send(p);
            }
            Todo::Pubcomp(id) => {
                let p = self.ack(AckKind::Pubcomp, id, false);
                self.send(p);
            }
            Todo::Pubrel(id) => {
                if self.model.owner.get(&id) == Some(&Owner::RelPending) {
                    let p = self.ack(AckKind::Pubrel, id, false);
                    self.send(p);
                }
            }
            Todo::Suback(id, n) => {
                self.send(Pkt::Suback { ver, id, props: vec![], codes: vec![0; n.max(1)] });
            }
            Todo::Unsuback(id, n) => {
                self.send(Pkt::Unsuback { ver, id, props: vec![], codes: if ver == Ver::V5 { vec![0; n.max(1)] } else { vec![] } });
            }
            Todo::Pingresp => {
                self.send(Pkt::Pingresp { ver });
            }
        }
        true
    }

    fn id_ops(&mut self) {
        let max = self.model.max_id;
        match self.r.below(6) {
            0 | 1 => {
                self.acquire();
            }
            2 => {
                let id = *self.r.pick(&[0u32, 1, 2, 3, max, max - 1]);
                self.register(id);
            }
            _ => {
                // release: mostly ids the application owns; also free ids and 0 (totality)
                let mine: Vec<u32> = self.model.owner.iter().filter(|(_, o)| **o == Owner::App).map(|(i, _)| *i).collect();
                let id = if !mine.is_empty() && self.r.below(3) > 0 { *self.r.pick(&mine) } else { *self.r.pick(&[0u32, 1, 5, max]) };
                // contract: the application does not release an id that an in-flight exchange owns
                if matches!(self.model.owner.get(&id), None | Some(Owner::App)) {
                    self.release(id);
                }
            }
        }
    }

    fn step(&mut self) {
        let f = self.sc.focus;
        let ver = self.ver();
        if self.sc.connect_first && self.model.connections == 0 && self.model.status == St::D {
            let p = self.connect_pkt();
            if self.sc.as_client {
                self.send(p);
            } else {
                self.feed_pkt(&p);
            }
            return;
        }
        if self.close_pending && self.skip_close_pm > 0 && self.sc.as_client && self.model.status == St::D && self.r.below(1000) < self.skip_close_pm {
            // the application reconnects on a new transport and never tells the library that the old one is gone
            self.sink.skipped_close = true;
            *self.counters.entry("reconnects_without_notify_closed".into()).or_insert(0) += 1;
            self.close_pending = false;
            let p = self.connect_pkt();
            self.send(p);
            return;
        }
        if self.close_pending {
            // the rest of what the peer had already sent may arrive after the library has asked for the close and before
            // the application reports the transport closed
            if self.model.transport_open && self.model.status == St::D && self.r.below(100) < 25 {
                let p = if self.r.bool() { self.peer_publish() } else { self.peer_ack_frame().unwrap_or(Pkt::Pingreq { ver }) };
                self.feed_pkt(&p);
                return;
            }
            if self.r.below(100) < 80 || self.model.status == St::D {
                self.closed();
                return;
            }
        }
        // the application breaks its contract
        if self.misuse_pm > 0 && self.r.below(1000) < self.misuse_pm {
            let busy: Vec<u32> = self.model.owner.iter().filter(|(_, o)| **o != Owner::App).map(|(i, _)| *i).collect();
            if !busy.is_empty() {
                let id = *self.r.pick(&busy);
                self.sink.misused = true;
                *self.counters.entry("application_misuse_ops".into()).or_insert(0) += 1;
                match self.r.below(3) {
                    0 => self.release(id),
                    1 => {
                        // a packet of another exchange on the busy id (refused sends release "their" id)
                        let p = if self.sc.as_client { Pkt::Subscribe { ver, id, props: vec![], entries: vec![(b"a".to_vec(), 0)] } } else { self.our_publish(1, Some(id)) };
                        self.send(p);
                    }
                    _ => {
                        let p = self.our_publish(2, Some(id));
                        self.send(p);
                    }
                }
                return;
            }
        }
        // fire an armed timer
        let armed: Vec<Timer> = self.model.armed.iter().copied().collect();
        if !armed.is_empty() && self.r.below(100) < (if f == Focus::Timers { 14 } else { 3 }) {
            let k = *self.r.pick(&armed);
            self.timer(k);
            return;
        }
        if self.r.below(100) < (if f == Focus::Ids { 18 } else { 4 }) {
            self.id_ops();
            return;
        }
        // the peer stalls in the middle of a (possibly big) frame and the keep-alive expires
        if self.model.status == St::Cd && self.model.pending.is_empty() && self.model.armed.contains(&Timer::PingreqRecv) && self.r.below(1000) < (if matches!(f, Focus::Timers | Focus::Hostile) { 25 } else { 4 }) {
            let total: usize = *self.r.pick(&[40usize, 70_000, 200_000]);
            let have = if total == 40 { 20 } else { 66_000 + self.r.usize(3000) };
            let mut fr: Vec<u8> = vec![0x30];
            rc::vbi_encode(total as u32, &mut fr);
            fr.extend_from_slice(&[0, 1, b't']);
            if ver == Ver::V5 {
                fr.push(0);
            }
            fr.resize(have, b'z');
            self.feed(&fr, &[]);
            if !self.dead && self.model.armed.contains(&Timer::PingreqRecv) {
                self.timer(Timer::PingreqRecv);
            }
            return;
        }
        if self.r.below(100) < (if f == Focus::Timers { 6 } else { 1 }) {
            let v = *self.r.pick(&[None, Some(0u64), Some(3000), Some(9000), Some(9000), Some(1u64 << 32), Some((1u64 << 32) + 7), Some(u64::MAX)]);
            self.set_ping_interval(v);
            return;
        }
        if self.r.below(100) < (if f == Focus::Timers { 5 } else { 1 }) {
            // the response timeout is a live setting: change it in the middle of a connection too
            let v = *self.r.pick(&[0u64, 0, 500, 900]);
            self.set_pingresp_timeout(v);
            return;
        }
        if self.r.below(1000) < (if f == Focus::Ids { 40 } else { 8 }) {
            // a send that must be refused whatever the state: wrong protocol version, or a packet kind
            // this role may never send - carrying a packet id the application holds
            // ... or a packet of this connection's own kind on an id that nobody acquired (refused as invalid, nothing to release)
            if self.model.status == St::Cd && self.r.below(6) == 0 {
                // the application continues a QoS 2 exchange it knows from elsewhere: PUBREL on an id it holds
                if let Some(id) = self.app_id() {
                    let p = self.ack(AckKind::Pubrel, id, false);
                    self.send(p);
                    return;
                }
            }
            if self.model.status == St::Cd && self.r.below(4) == 0 {
                let free = (1u32..=12).find(|i| !self.model.in_use.contains(i)).unwrap_or(0);
                if free != 0 {
                    let p = match self.r.below(3) {
                        0 if self.sc.as_client => Pkt::Subscribe { ver, id: free, props: vec![], entries: vec![(b"a/#".to_vec(), 1)] },
                        1 => Pkt::Ack { ver, kind: AckKind::Pubrel, id: free, code: None, props: None },
                        _ => {
                            let q = 1 + self.r.below(2) as u8;
                            self.our_publish(q, Some(free))
                        }
                    };
                    self.send(p);
                    return;
                }
            }
            if let Some(id) = self.app_id() {
                let wrong_ver = if ver == Ver::V5 { Ver::V311 } else { Ver::V5 };
                let v = if self.sc.role == Role::Server && self.r.bool() { ver } else { wrong_ver };
                let p = match self.r.below(3) {
                    0 => Pkt::Subscribe { ver: v, id, props: vec![], entries: vec![(b"a/#".to_vec(), 1)] },
                    1 => Pkt::Unsubscribe { ver: v, id, props: vec![], entries: vec![b"a/#".to_vec()] },
                    _ => Pkt::Publish { ver: wrong_ver, dup: false, qos: 1, retain: false, topic: b"a".to_vec(), id: Some(id), props: vec![], payload: vec![1] },
                };
                self.send(p);
            }
            return;
        }
        match self.model.status {
            St::D => {
                if self.close_pending {
                    self.closed();
                    return;
                }
                let c = self.r.below(100);
                if c < 62 {
                    // new connection
                    if self.path_flip && self.sc.role == Role::Any && self.sc.ver != LVer::Undetermined && self.model.connections > 0 && self.r.below(4) == 0 {
                        self.sc.as_client = !self.sc.as_client;
                    }
                    if self.sc.as_client {
                        let p = self.connect_pkt();
                        self.send(p);
                    } else {
                        let p = self.connect_pkt();
                        self.feed_pkt(&p);
                    }
                } else if c < 82 {
                    // offline activity: publish / pubrel between two connections
                    if !self.do_todo() {
                        let qos = 1 + self.r.below(2) as u8;
                        if let Some(id) = self.app_id() {
                            let p = self.our_publish(qos, Some(id));
                            self.send(p);
                        }
                    }
                } else if c < 88 {
                    let o = *self.r.pick(&ALL_OPTS);
                    let on = self.r.bool();
                    self.set_opt(o, on);
                } else if c < 93 && self.model.connections > 0 {
                    let ids: Vec<u32> = self.model.store.iter().map(|e| e.id).collect();
                    let id = if !ids.is_empty() && self.r.bool() { *self.r.pick(&ids) } else { 1 + self.r.below(3) as u32 };
                    self.erase(id);
                } else if c < 96 && self.sc.hostile_pct > 0 && !self.sc.as_client {
                    // (only a server has a transport before the handshake: its first bytes may be anything)
                    let b = self.hostile_bytes();
                    let cuts = self.gen_cuts(b.len());
                    self.feed(&b, &cuts);
                } else {
                    // a refused send in the wrong state
                    let p = if self.r.bool() { Pkt::Pingreq { ver } } else { self.our_publish(0, None) };
                    self.send(p);
                }
            }
            St::Cg => {
                let c = self.r.below(100);
                if c < 72 {
                    let p = self.connack_pkt();
                    if self.sc.as_client {
                        self.feed_pkt(&p);
                    } else {
                        self.send(p);
                    }
                } else if c < 84 {
                    // publish before the handshake completes (queued when the session is persistent)
                    let qos = self.r.below(3) as u8;
                    let id = if qos > 0 { self.app_id() } else { None };
                    if qos == 0 || id.is_some() {
                        let p = self.our_publish(qos, id);
                        self.send(p);
                    }
                } else if c < 90 && !self.sc.as_client {
                    // the client may send right after its CONNECT
                    let p = self.peer_publish();
                    self.feed_pkt(&p);
                } else if c < 94 {
                    self.closed();
                } else if self.sc.hostile_pct > 0 {
                    let b = self.hostile_bytes();
                    let cuts = self.gen_cuts(b.len());
                    self.feed(&b, &cuts);
                } else {
                    self.send(Pkt::Pingreq { ver });
                }
            }
            St::Cd => {
                if !self.todo.is_empty() && self.r.below(100) < 45 {
                    self.do_todo();
                    return;
                }
                let w_pub = match f {
                    Focus::Store | Focus::Flow | Focus::Alias | Focus::Size => 34,
                    Focus::Qos2In => 10,
                    _ => 22,
                };
                let w_peer_pub = match f {
                    Focus::Qos2In => 40,
                    Focus::Alias | Focus::Flow => 22,
                    _ => 16,
                };
                let w_ack = match f {
                    Focus::Store | Focus::Flow | Focus::Ids => 26,
                    _ => 18,
                };
                let weights = [w_pub, w_peer_pub, w_ack, 6u32, 4, 3, 4, 3, self.sc.hostile_pct as u32 / 2, 2];
                match self.r.weighted(&weights) {
                    0 => {
                        let qos = match f {
                            Focus::Flow | Focus::Store => 1 + self.r.below(2) as u8,
                            _ => self.r.below(3) as u8,
                        };
                        // now and then a burst: many exchanges in flight / many stored packets at once
                        let burst = if self.r.below(60) == 0 { 8 + self.r.usize(30) } else { 1 };
                        for _ in 0..burst {
                            if self.dead || self.model.status != St::Cd {
                                break;
                            }
                            let id = if qos > 0 { self.app_id() } else { None };
                            if qos == 0 || id.is_some() {
                                let p = self.our_publish(qos, id);
                                self.send(p);
                            }
                        }
                    }
                    1 => {
                        let p = self.peer_publish();
                        self.feed_pkt(&p);
                    }
                    2 => {
                        if let Some(p) = self.peer_ack_frame() {
                            self.feed_pkt(&p);
                        } else if self.model.handled.len() > 0 || self.r.bool() {
                            // peer PUBREL for a handled (or random) id
                            let max = self.model.max_id;
                            let id = self.model.handled.iter().next().copied().filter(|_| self.r.below(5) > 0).unwrap_or(*self.r.pick(&[1u32, 2, 3, max]));
                            let p = self.ack(AckKind::Pubrel, id, false);
                            self.feed_pkt(&p);
                        }
                    }
                    3 => {
                        // peer PUBREL
                        let max = self.model.max_id;
                        let hs: Vec<u32> = self.model.handled.iter().copied().collect();
                        let id = if !hs.is_empty() && self.r.below(5) > 0 { *self.r.pick(&hs) } else { *self.r.pick(&[1u32, 2, 3, max]) };
                        let p = self.ack(AckKind::Pubrel, id, false);
                        self.feed_pkt(&p);
                    }
                    4 => {
                        if self.sc.as_client {
                            if let Some(id) = self.app_id() {
                                let p = if self.r.bool() {
                                    Pkt::Subscribe { ver, id, props: vec![], entries: vec![(b"a/#".to_vec(), 1)] }
                                } else {
                                    Pkt::Unsubscribe { ver, id, props: vec![], entries: vec![b"a/#".to_vec()] }
                                };
                                self.send(p);
                            }
                        } else {
                            let max = self.model.max_id;
                            let id = *self.r.pick(&[1u32, 2, max]);
                            let p = if self.r.bool() {
                                Pkt::Subscribe { ver, id, props: vec![], entries: vec![(b"a/#".to_vec(), 1)] }
                            } else {
                                Pkt::Unsubscribe { ver, id, props: vec![], entries: vec![b"a/#".to_vec()] }
                            };
                            self.feed_pkt(&p);
                        }
                    }
                    5 => {
                        if self.sc.as_client {
                            self.send(Pkt::Pingreq { ver });
                        } else {
                            self.feed_pkt(&Pkt::Pingreq { ver });
                        }
                    }
                    6 => {
                        // peer PINGRESP / our stray packets
                        if self.sc.as_client {
                            self.feed_pkt(&Pkt::Pingresp { ver });
                        } else if ver == Ver::V5 {
                            self.send(Pkt::Auth { code: Some(0x19), props: Some(vec![p_str(21, "m")]) });
                        } else {
                            self.send(Pkt::Pingresp { ver });
                        }
                    }
                    7 => {
                        // transport loss, local DISCONNECT, or peer DISCONNECT
                        match self.r.below(3) {
                            0 => {
                                self.closed();
                            }
                            1 => {
                                if self.sc.as_client || ver == Ver::V5 {
                                    self.send(Pkt::Disconnect { ver, code: if ver == Ver::V5 { Some(0) } else { None }, props: None });
                                } else {
                                    self.closed();
                                }
                            }
                            _ => {
                                if !self.sc.as_client || ver == Ver::V5 {
                                    self.feed_pkt(&Pkt::Disconnect { ver, code: if ver == Ver::V5 { Some(0x8B) } else { None }, props: None });
                                } else {
                                    self.closed();
                                }
                            }
                        }
                    }
                    8 => {
                        let b = self.hostile_bytes();
                        let cuts = self.gen_cuts(b.len());
                        self.feed(&b, &cuts);
                    }
                    _ => {
                        let ids: Vec<u32> = self.model.store.iter().map(|e| e.id).collect();
                        if !ids.is_empty() {
                            let id = *self.r.pick(&ids);
                            self.erase(id);
                        } else {
                            let o = *self.r.pick(&[Opt::AutoPubResponse, Opt::AutoMapTopicAlias, Opt::AutoReplaceTopicAlias, Opt::AutoPingResponse]);
                            let on = self.r.bool();
                            self.set_opt(o, on);
                        }
                    }
                }
            }
        }
    }

    pub fn run(mut self) -> Outcome {
        self.setup();
        let n = self.sc.max_ops;
        for _ in 0..n {
            if self.dead {
                break;
            }
            self.step();
        }
        self.finish()
    }

    pub fn finish(self) -> Outcome {
        Outcome {
            trace: self.trace,
            found: self.sink.found,
            hits: self.sink.hits,
            api_calls: self.api_calls,
            shape: self.shape,
            connections: self.model.connections,
            max_inflight: self.model.max_inflight,
            frames: self.model.frames_seen,
            nontrivial: self.nontrivial,
            model_state: self.model.state_json(),
            counters: self.counters,
            known_seen: self.known_seen,
            op_trace: self.op_trace,
        }
    }
}

pub fn trace_json(t: &[Step]) -> Value {
    Value::Array(t.iter().map(|s| json!(format!("{} => {}", s.call, s.events))).collect())
}

pub fn scenario_json(sc: &Scenario) -> Value {
    json!({"role": format!("{:?}", sc.role), "id_width": sc.idw, "version": format!("{:?}", sc.ver), "acts_as": if sc.as_client { "client" } else { "server" }, "focus": format!("{:?}", sc.focus), "peer_speaks": format!("{:?}", sc.speak), "max_ops": sc.max_ops, "hostile_pct": sc.hostile_pct})
}

pub fn random_scenario(r: &mut Rng, focus: Focus, hostile_pct: u64) -> Scenario {
    let role = *r.pick(&[Role::Client, Role::Server, Role::Any, Role::Client, Role::Server]);
    let as_client = match role {
        Role::Client => true,
        Role::Server => false,
        Role::Any => r.bool(),
    };
    let ver = if !as_client && r.below(6) == 0 { LVer::Undetermined } else if r.below(100) < 62 { LVer::V5 } else { LVer::V311 };
    // an Undetermined server adopts the version of the first CONNECT; the driver then speaks v5 or v3.1.1
    let idw = if r.below(4) == 0 { 4 } else { 2 };
    let _ = BTreeSet::<u32>::new();
    let speak = if r.bool() { Ver::V5 } else { Ver::V311 };
    // (most histories are short; one in forty is long - many connections, many exchanges, ids wrapping round small ranges)
    let max_ops = if r.below(40) == 0 { 200 + r.usize(400) } else { 10 + r.usize(50) };
    Scenario { role, idw, ver, focus, max_ops, hostile_pct, as_client, speak, connect_first: false }
}
