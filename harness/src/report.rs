//! Verdict plumbing shared by all checks: context, violations, coverage report, merge across threads.

use crate::rng;
use serde_json::{json, Map, Value};
use std::collections::{BTreeMap, HashSet};

#[derive(Clone, Copy, Debug, PartialEq, Eq)]
pub enum Tier {
    Quick,
    Thorough,
}
impl Tier {
    pub fn name(self) -> &'static str {
        match self {
            Tier::Quick => "quick",
            Tier::Thorough => "thorough",
        }
    }
    pub fn pick<T>(self, quick: T, thorough: T) -> T {
        match self {
            Tier::Quick => quick,
            Tier::Thorough => thorough,
        }
    }
}

#[derive(Clone, Debug)]
pub struct Ctx {
    pub prop: String,
    pub tier: Tier,
    pub seed: u64,
    pub threads: usize,
    /// when replaying: only this case (stream, index)
    pub replay: Option<(u64, u64)>,
    /// scale factor on budgets (env VERIF_SCALE, default 1.0) - used by sub-runs (C14/C19) at reduced budget
    pub scale: f64,
    pub profile: String,
    pub features: String,
}
impl Ctx {
    pub fn budget(&self, quick: u64, thorough: u64) -> u64 {
        let b = self.tier.pick(quick, thorough) as f64 * self.scale;
        (b as u64).max(1)
    }
}

#[derive(Clone, Debug)]
pub struct Violation {
    pub property: String,
    pub rule: String,
    /// stable class of the failure (DESIGN Appendix E): "<prop>.<rule>@attr=val;..."
    pub signature: String,
    /// human readable explanation
    pub what: String,
    /// the witness: scenario, ops, events, expected/observed
    pub witness: Value,
    /// (stream, case index) for --replay
    pub case: (u64, u64),
}

#[derive(Default, Debug)]
pub struct Report {
    pub evaluations: u64,
    pub distinct: HashSet<u64>,
    pub samples: Vec<Value>,
    pub extra: Map<String, Value>,
    pub counters: BTreeMap<String, u64>,
    pub rule_hits: BTreeMap<String, u64>,
    pub violations: Vec<Violation>,
    pub inconclusive: Vec<String>,
    pub rule: String,
    pub assumptions: Vec<String>,
    pub exhaustive: bool,
    pub api_calls: u64,
}

impl Report {
    pub fn new(rule: &str) -> Self {
        Report { rule: rule.to_string(), ..Default::default() }
    }
    pub fn hit(&mut self, rule: &str) {
        *self.rule_hits.entry(rule.to_string()).or_insert(0) += 1;
    }
    pub fn hit_n(&mut self, rule: &str, n: u64) {
        *self.rule_hits.entry(rule.to_string()).or_insert(0) += n;
    }
    pub fn count(&mut self, key: &str) {
        *self.counters.entry(key.to_string()).or_insert(0) += 1;
    }
    pub fn count_n(&mut self, key: &str, n: u64) {
        *self.counters.entry(key.to_string()).or_insert(0) += n;
    }
    pub fn distinct_case(&mut self, bytes: &[u8]) {
        self.distinct.insert(rng::fnv(bytes));
    }
    pub fn distinct_hash(&mut self, h: u64) {
        self.distinct.insert(h);
    }
    pub fn sample(&mut self, v: Value, max: usize) {
        if self.samples.len() < max {
            self.samples.push(v);
        }
    }
    pub fn violate(&mut self, v: Violation) {
        // keep at most a handful of witnesses per signature
        let same = self.violations.iter().filter(|x| x.signature == v.signature).count();
        if same < 3 {
            self.violations.push(v);
        }
        *self.counters.entry("violations_total".to_string()).or_insert(0) += 1;
    }
    pub fn merge(&mut self, o: Report) {
        self.evaluations += o.evaluations;
        self.api_calls += o.api_calls;
        self.distinct.extend(o.distinct);
        for s in o.samples {
            if self.samples.len() < 6 {
                self.samples.push(s);
            }
        }
        for (k, v) in o.extra {
            self.extra.entry(k).or_insert(v);
        }
        for (k, v) in o.counters {
            *self.counters.entry(k).or_insert(0) += v;
        }
        for (k, v) in o.rule_hits {
            *self.rule_hits.entry(k).or_insert(0) += v;
        }
        for v in o.violations {
            let same = self.violations.iter().filter(|x| x.signature == v.signature).count();
            if same < 3 {
                self.violations.push(v);
            }
        }
        self.inconclusive.extend(o.inconclusive);
        for a in o.assumptions {
            if !self.assumptions.contains(&a) {
                self.assumptions.push(a);
            }
        }
        if self.rule.is_empty() {
            self.rule = o.rule;
        }
        self.exhaustive = self.exhaustive || o.exhaustive;
    }
    /// rule-antecedent floors: a rule that never had anything to say makes the run inconclusive
    pub fn require_hits(&mut self, floors: &[(&str, u64)]) {
        for (r, f) in floors {
            let h = self.rule_hits.get(*r).copied().unwrap_or(0);
            if h < *f {
                self.inconclusive.push(format!("rule {} exercised {} times (< floor {})", r, h, f));
            }
        }
    }
    pub fn coverage_json(&self) -> Value {
        let mut m = Map::new();
        m.insert("evaluations".into(), json!(self.evaluations));
        m.insert("distinct_nontrivial".into(), json!(self.distinct.len()));
        m.insert("rule".into(), json!(self.rule));
        m.insert("samples".into(), Value::Array(self.samples.clone()));
        if self.exhaustive {
            m.insert("exhaustive".into(), json!(true));
        }
        m.insert("api_calls".into(), json!(self.api_calls));
        m.insert("rule_hits".into(), json!(self.rule_hits));
        m.insert("counters".into(), json!(self.counters));
        for (k, v) in &self.extra {
            m.insert(k.clone(), v.clone());
        }
        Value::Object(m)
    }
}

/// Run `n` cases on `threads` worker threads; case i gets seed derive(seed, stream, i).
/// `f(case_index, case_seed, &mut Report)`.
pub fn run_cases<F>(ctx: &Ctx, stream: u64, n: u64, rule: &str, f: F) -> Report
where
    F: Fn(u64, u64, &mut Report) + Sync,
{
    let mut total = Report::new(rule);
    if let Some((s, idx)) = ctx.replay {
        if s == stream {
            let mut r = Report::new(rule);
            f(idx, rng::derive(ctx.seed, stream, idx), &mut r);
            total.merge(r);
        }
        return total;
    }
    let threads = ctx.threads.max(1).min(n.max(1) as usize);
    let parts: Vec<Report> = std::thread::scope(|sc| {
        let mut hs = Vec::new();
        for t in 0..threads {
            let f = &f;
            let seed = ctx.seed;
            hs.push(sc.spawn(move || {
                let mut r = Report::new(rule);
                let mut i = t as u64;
                while i < n {
                    // a panic of the harness itself (never of the library: those are caught at the call) must not
                    // take the run down as a crash: it makes the run inconclusive
                    let res = std::panic::catch_unwind(std::panic::AssertUnwindSafe(|| f(i, rng::derive(seed, stream, i), &mut r)));
                    if res.is_err() {
                        r.inconclusive.push(format!("the harness itself panicked in case ({}, {})", stream, i));
                        break;
                    }
                    // stop early once a thread has plenty of witnesses
                    if r.violations.len() >= 45 {
                        break;
                    }
                    i += threads as u64;
                }
                r
            }));
        }
        hs.into_iter().map(|h| h.join().expect("worker thread panicked outside guard")).collect()
    });
    for p in parts {
        total.merge(p);
    }
    total
}
