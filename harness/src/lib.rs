//! Library part of the harness (so that the Miri shard tests can reach the checks).
pub mod apkt;
pub mod bridge;
pub mod checks;
pub mod conn;
pub mod driver;
pub mod findings;
pub mod gen;
pub mod guard;
pub mod libcodec;
pub mod model;
pub mod refcodec;
pub mod report;
pub mod rng;
