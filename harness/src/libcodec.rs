//! Library-side codec access: serialise a library packet, parse a frame with the library parsers.

use crate::apkt::Ver;
use crate::bridge::Pid;
use crate::refcodec::{frame_at, Framed};
use mqtt_protocol_core::mqtt::common::Arc;
use mqtt_protocol_core::mqtt::packet::v3_1_1 as v3;
use mqtt_protocol_core::mqtt::packet::v5_0 as v5;
use mqtt_protocol_core::mqtt::packet::{GenericPacket, GenericPacketTrait};
use mqtt_protocol_core::mqtt::result_code::MqttError;

pub fn lib_bytes<P: Pid>(p: &GenericPacket<P>) -> Vec<u8> {
    p.to_continuous_buffer()
}
pub fn lib_size<P: Pid>(p: &GenericPacket<P>) -> usize {
    p.size()
}
pub fn lib_buffers_concat<P: Pid>(p: &GenericPacket<P>) -> Vec<u8> {
    let mut out = Vec::new();
    for s in p.to_buffers() {
        out.extend_from_slice(&s);
    }
    out
}

#[derive(Debug, Clone, PartialEq, Eq)]
pub enum ParseErr {
    NotAFrame,
    UnknownType(u8),
    Lib(MqttError),
}

/// Parse the body of a frame with the library parser of (type nibble, version).
/// Returns the packet and the number of body bytes the parser reports as consumed.
pub fn lib_parse_body<P: Pid>(first: u8, body: &[u8], ver: Ver) -> Result<(GenericPacket<P>, usize), ParseErr> {
    let ty = first >> 4;
    let flags = first & 0x0F;
    let e = ParseErr::Lib;
    macro_rules! p {
        ($t:ty) => {{
            let (p, n) = <$t>::parse(body).map_err(e)?;
            Ok((p.into(), n))
        }};
    }
    match (ver, ty) {
        (Ver::V311, 1) => p!(v3::Connect),
        (Ver::V311, 2) => p!(v3::Connack),
        (Ver::V311, 3) => {
            let (p, n) = v3::GenericPublish::<P>::parse(flags, Arc::from(body)).map_err(e)?;
            Ok((p.into(), n))
        }
        (Ver::V311, 4) => p!(v3::GenericPuback<P>),
        (Ver::V311, 5) => p!(v3::GenericPubrec<P>),
        (Ver::V311, 6) => p!(v3::GenericPubrel<P>),
        (Ver::V311, 7) => p!(v3::GenericPubcomp<P>),
        (Ver::V311, 8) => p!(v3::GenericSubscribe<P>),
        (Ver::V311, 9) => p!(v3::GenericSuback<P>),
        (Ver::V311, 10) => p!(v3::GenericUnsubscribe<P>),
        (Ver::V311, 11) => p!(v3::GenericUnsuback<P>),
        (Ver::V311, 12) => p!(v3::Pingreq),
        (Ver::V311, 13) => p!(v3::Pingresp),
        (Ver::V311, 14) => p!(v3::Disconnect),
        (Ver::V5, 1) => p!(v5::Connect),
        (Ver::V5, 2) => p!(v5::Connack),
        (Ver::V5, 3) => {
            let (p, n) = v5::GenericPublish::<P>::parse(flags, Arc::from(body)).map_err(e)?;
            Ok((p.into(), n))
        }
        (Ver::V5, 4) => p!(v5::GenericPuback<P>),
        (Ver::V5, 5) => p!(v5::GenericPubrec<P>),
        (Ver::V5, 6) => p!(v5::GenericPubrel<P>),
        (Ver::V5, 7) => p!(v5::GenericPubcomp<P>),
        (Ver::V5, 8) => p!(v5::GenericSubscribe<P>),
        (Ver::V5, 9) => p!(v5::GenericSuback<P>),
        (Ver::V5, 10) => p!(v5::GenericUnsubscribe<P>),
        (Ver::V5, 11) => p!(v5::GenericUnsuback<P>),
        (Ver::V5, 12) => p!(v5::Pingreq),
        (Ver::V5, 13) => p!(v5::Pingresp),
        (Ver::V5, 14) => p!(v5::Disconnect),
        (Ver::V5, 15) => p!(v5::Auth),
        _ => Err(ParseErr::UnknownType(ty)),
    }
}

/// Parse one complete frame; also returns the body length.
pub fn lib_parse_frame<P: Pid>(frame: &[u8], ver: Ver) -> Result<(GenericPacket<P>, usize, usize), ParseErr> {
    match frame_at(frame) {
        Framed::Frame { first, body_off, total } if total == frame.len() => {
            let body = &frame[body_off..];
            let (p, n) = lib_parse_body::<P>(first, body, ver)?;
            Ok((p, n, body.len()))
        }
        _ => Err(ParseErr::NotAFrame),
    }
}
