//! abstract packet -> library packet through the PUBLIC BUILDERS; library packet -> abstract packet
//! through the PUBLIC ACCESSORS. Nothing here touches library internals.

use crate::apkt::*;
use mqtt_protocol_core::mqtt;
use mqtt_protocol_core::mqtt::packet::v3_1_1 as v3;
use mqtt_protocol_core::mqtt::packet::v5_0 as v5;
use mqtt_protocol_core::mqtt::packet::{
    GenericPacket, GenericStorePacket, IntoPacketId, IsPacketId, Property, Qos, SubEntry, SubOpts,
};
use mqtt_protocol_core::mqtt::prelude::PropertyValueAccess;
use mqtt_protocol_core::mqtt::result_code::*;

/// Packet identifier types the harness is instantiated for.
pub trait Pid: IsPacketId + IntoPacketId<Self> + Send + Sync {
    const WIDTH: usize;
    fn from_u32(v: u32) -> Self;
    fn to_u32(self) -> u32;
    fn max_u32() -> u32;
}
impl Pid for u16 {
    const WIDTH: usize = 2;
    fn from_u32(v: u32) -> Self {
        v as u16
    }
    fn to_u32(self) -> u32 {
        self as u32
    }
    fn max_u32() -> u32 {
        u16::MAX as u32
    }
}
impl Pid for u32 {
    const WIDTH: usize = 4;
    fn from_u32(v: u32) -> Self {
        v
    }
    fn to_u32(self) -> u32 {
        self
    }
    fn max_u32() -> u32 {
        u32::MAX
    }
}

/// Why an abstract packet could not be turned into a library packet.
#[derive(Debug, Clone, PartialEq, Eq)]
pub enum BuildErr {
    /// a library builder / constructor returned this error
    Lib(String),
    /// the abstract value cannot even be expressed through the public API (e.g. non-UTF-8 &str)
    Inexpressible(String),
}
impl BuildErr {
    pub fn is_lib(&self) -> bool {
        matches!(self, BuildErr::Lib(_))
    }
}
fn lib<T>(r: Result<T, MqttError>) -> Result<T, BuildErr> {
    r.map_err(|e| BuildErr::Lib(format!("{:?}", e)))
}
fn s(b: &[u8]) -> Result<&str, BuildErr> {
    std::str::from_utf8(b).map_err(|_| BuildErr::Inexpressible("non-utf8 string".into()))
}
fn qos(q: u8) -> Result<Qos, BuildErr> {
    match q {
        0 => Ok(Qos::AtMostOnce),
        1 => Ok(Qos::AtLeastOnce),
        2 => Ok(Qos::ExactlyOnce),
        _ => Err(BuildErr::Inexpressible("qos 3".into())),
    }
}
fn code<T: TryFrom<u8>>(c: u8) -> Result<T, BuildErr> {
    T::try_from(c).map_err(|_| BuildErr::Inexpressible(format!("reason code {:#x} not in enum", c)))
}

pub fn prop_to_lib(p: &Prop) -> Result<Property, BuildErr> {
    use mqtt::packet as mp;
    let bad = || BuildErr::Inexpressible(format!("property {} with value of wrong type", p.id));
    Ok(match (p.id, &p.val) {
        (1, PVal::Byte(v)) => Property::PayloadFormatIndicator(lib(mp::PayloadFormatIndicator::new(match v {
            0 => mp::PayloadFormat::Binary,
            1 => mp::PayloadFormat::String,
            _ => return Err(BuildErr::Inexpressible("payload format > 1".into())),
        }))?),
        (2, PVal::U32(v)) => Property::MessageExpiryInterval(lib(mp::MessageExpiryInterval::new(*v))?),
        (3, PVal::Str(v)) => Property::ContentType(lib(mp::ContentType::new(s(v)?))?),
        (8, PVal::Str(v)) => Property::ResponseTopic(lib(mp::ResponseTopic::new(s(v)?))?),
        (9, PVal::Bin(v)) => Property::CorrelationData(lib(mp::CorrelationData::new(v.clone()))?),
        (11, PVal::Vbi(v)) => Property::SubscriptionIdentifier(lib(mp::SubscriptionIdentifier::new(*v))?),
        (17, PVal::U32(v)) => Property::SessionExpiryInterval(lib(mp::SessionExpiryInterval::new(*v))?),
        (18, PVal::Str(v)) => Property::AssignedClientIdentifier(lib(mp::AssignedClientIdentifier::new(s(v)?))?),
        (19, PVal::U16(v)) => Property::ServerKeepAlive(lib(mp::ServerKeepAlive::new(*v))?),
        (21, PVal::Str(v)) => Property::AuthenticationMethod(lib(mp::AuthenticationMethod::new(s(v)?))?),
        (22, PVal::Bin(v)) => Property::AuthenticationData(lib(mp::AuthenticationData::new(v.clone()))?),
        (23, PVal::Byte(v)) => Property::RequestProblemInformation(lib(mp::RequestProblemInformation::new(*v))?),
        (24, PVal::U32(v)) => Property::WillDelayInterval(lib(mp::WillDelayInterval::new(*v))?),
        (25, PVal::Byte(v)) => Property::RequestResponseInformation(lib(mp::RequestResponseInformation::new(*v))?),
        (26, PVal::Str(v)) => Property::ResponseInformation(lib(mp::ResponseInformation::new(s(v)?))?),
        (28, PVal::Str(v)) => Property::ServerReference(lib(mp::ServerReference::new(s(v)?))?),
        (31, PVal::Str(v)) => Property::ReasonString(lib(mp::ReasonString::new(s(v)?))?),
        (33, PVal::U16(v)) => Property::ReceiveMaximum(lib(mp::ReceiveMaximum::new(*v))?),
        (34, PVal::U16(v)) => Property::TopicAliasMaximum(lib(mp::TopicAliasMaximum::new(*v))?),
        (35, PVal::U16(v)) => Property::TopicAlias(lib(mp::TopicAlias::new(*v))?),
        (36, PVal::Byte(v)) => Property::MaximumQos(lib(mp::MaximumQos::new(*v))?),
        (37, PVal::Byte(v)) => Property::RetainAvailable(lib(mp::RetainAvailable::new(*v))?),
        (38, PVal::Pair(k, v)) => Property::UserProperty(lib(mp::UserProperty::new(s(k)?, s(v)?))?),
        (39, PVal::U32(v)) => Property::MaximumPacketSize(lib(mp::MaximumPacketSize::new(*v))?),
        (40, PVal::Byte(v)) => {
            Property::WildcardSubscriptionAvailable(lib(mp::WildcardSubscriptionAvailable::new(*v))?)
        }
        (41, PVal::Byte(v)) => {
            Property::SubscriptionIdentifierAvailable(lib(mp::SubscriptionIdentifierAvailable::new(*v))?)
        }
        (42, PVal::Byte(v)) => Property::SharedSubscriptionAvailable(lib(mp::SharedSubscriptionAvailable::new(*v))?),
        _ => return Err(bad()),
    })
}
pub fn props_to_lib(ps: &[Prop]) -> Result<Vec<Property>, BuildErr> {
    ps.iter().map(prop_to_lib).collect()
}

pub fn prop_from_lib(p: &Property) -> Prop {
    let id = p.id().as_u8();
    let val = match prop_type(id) {
        Some(PType::Byte) => PVal::Byte(p.as_u8().expect("as_u8")),
        Some(PType::U16) => PVal::U16(p.as_u16().expect("as_u16")),
        Some(PType::U32) => PVal::U32(p.as_u32().expect("as_u32")),
        Some(PType::Vbi) => PVal::Vbi(p.as_u32().expect("as_u32(vbi)")),
        Some(PType::Str) => PVal::Str(p.as_str().expect("as_str").as_bytes().to_vec()),
        Some(PType::Bin) => PVal::Bin(p.as_bytes().expect("as_bytes").to_vec()),
        Some(PType::Pair) => {
            let (k, v) = p.as_key_value().expect("as_key_value");
            PVal::Pair(k.as_bytes().to_vec(), v.as_bytes().to_vec())
        }
        None => PVal::Bin(p.to_continuous_buffer()),
    };
    Prop { id, val }
}
pub fn props_from_lib(ps: &[Property]) -> Vec<Prop> {
    ps.iter().map(prop_from_lib).collect()
}

thread_local! {
    /// 0: packets are built with one canonical sequence of builder calls. Non-zero: the order of the calls is permuted by
    /// this seed and setters are called twice (a decoy value first) where the API lets a value be overwritten - the
    /// resulting packet must not depend on how the application arrived at its field values
    pub static BUILD_ORDER: std::cell::Cell<u64> = const { std::cell::Cell::new(0) };
}
/// sets BUILD_ORDER for the lifetime of the guard (reset to the canonical order on drop)
pub struct BuildOrder;
impl BuildOrder {
    pub fn set(seed: u64) -> BuildOrder {
        BUILD_ORDER.with(|c| c.set(seed));
        BuildOrder
    }
}
impl Drop for BuildOrder {
    fn drop(&mut self) {
        BUILD_ORDER.with(|c| c.set(0));
    }
}
fn order_seed() -> u64 {
    BUILD_ORDER.with(|c| c.get())
}
fn mix(seed: u64, k: u64) -> u64 {
    let mut x = seed ^ k.wrapping_mul(0x9E37_79B9_7F4A_7C15);
    x ^= x >> 31;
    x = x.wrapping_mul(0xBF58_476D_1CE4_E5B9);
    x ^ (x >> 29)
}
fn permutation(n: usize, seed: u64) -> Vec<usize> {
    let mut v: Vec<usize> = (0..n).collect();
    for i in (1..n).rev() {
        let j = (mix(seed, i as u64) % (i as u64 + 1)) as usize;
        v.swap(i, j);
    }
    v
}
fn rh_of(v: u8) -> mqtt::packet::RetainHandling {
    match v {
        0 => mqtt::packet::RetainHandling::SendRetained,
        1 => mqtt::packet::RetainHandling::SendRetainedIfNotExists,
        _ => mqtt::packet::RetainHandling::DoNotSendRetained,
    }
}

fn subopts(o: u8) -> Result<SubOpts, BuildErr> {
    let seed = order_seed();
    if seed == 0 || o & 0xC0 != 0 || (o >> 4) & 3 == 3 || o & 3 == 3 {
        return lib(SubOpts::from_u8(o));
    }
    // the same options reached through the setters, in a permuted order, each preceded by a decoy value, starting from
    // a fresh value or from some other valid byte
    let seed = mix(seed, o as u64);
    let mut x = if seed & 1 == 0 { SubOpts::new() } else { lib(SubOpts::from_u8([0x2Du8, 0x16, 0x08, 0x21][(seed >> 1) as usize % 4]))? };
    for (n, k) in permutation(4, seed).into_iter().enumerate() {
        let decoy = mix(seed, 100 + n as u64);
        match k {
            0 => {
                if decoy & 1 == 0 {
                    x = x.set_qos(qos(((o & 3) + 1 + (decoy >> 1) as u8 % 2) % 3)?);
                }
                x = x.set_qos(qos(o & 3)?);
            }
            1 => {
                if decoy & 1 == 0 {
                    x = x.set_nl(o & 4 == 0);
                }
                x = x.set_nl(o & 4 != 0);
            }
            2 => {
                if decoy & 1 == 0 {
                    x = x.set_rap(o & 8 == 0);
                }
                x = x.set_rap(o & 8 != 0);
            }
            _ => {
                if decoy & 1 == 0 {
                    x = x.set_rh(rh_of((((o >> 4) & 3) + 1 + (decoy >> 1) as u8 % 2) % 3));
                }
                x = x.set_rh(rh_of((o >> 4) & 3));
            }
        }
    }
    Ok(x)
}

/// Build the library packet for an abstract packet using only public builders.
pub fn to_lib<P: Pid>(p: &Pkt) -> Result<GenericPacket<P>, BuildErr> {
    Ok(match p {
        Pkt::Connect { ver: Ver::V311, clean, keep_alive, client_id, will, user, pass, .. } => {
            let seed = order_seed();
            let mut b = lib(v3::Connect::builder().client_id(s(client_id)?))?;
            let order = if seed == 0 { vec![0, 1, 2, 3, 4] } else { permutation(5, seed) };
            for (n, k) in order.into_iter().enumerate() {
                let decoy = seed != 0 && mix(seed, 200 + n as u64) & 1 == 0;
                match k {
                    0 => {
                        if decoy {
                            b = b.clean_session(!*clean);
                        }
                        b = b.clean_session(*clean);
                    }
                    1 => {
                        if decoy {
                            b = b.keep_alive(*keep_alive ^ 0x5A5A);
                        }
                        b = b.keep_alive(*keep_alive);
                    }
                    2 => {
                        if let Some(w) = will {
                            if decoy {
                                b = lib(b.will_message("decoy/topic", b"decoy".to_vec(), qos((w.qos + 1) % 3)?, !w.retain))?;
                            }
                            b = lib(b.will_message(s(&w.topic)?, w.payload.clone(), qos(w.qos)?, w.retain))?;
                        }
                    }
                    3 => {
                        if let Some(u) = user {
                            if decoy {
                                b = lib(b.user_name("decoy"))?;
                            }
                            b = lib(b.user_name(s(u)?))?;
                        }
                    }
                    _ => {
                        if let Some(pw) = pass {
                            if decoy {
                                b = lib(b.password(b"decoy".to_vec()))?;
                            }
                            b = lib(b.password(pw.clone()))?;
                        }
                    }
                }
            }
            lib(b.build())?.into()
        }
        Pkt::Connect { ver: Ver::V5, clean, keep_alive, client_id, will, user, pass, props } => {
            let seed = order_seed();
            let mut b = lib(v5::Connect::builder().client_id(s(client_id)?))?;
            let order = if seed == 0 { vec![0, 1, 5, 2, 6, 3, 4] } else { permutation(7, seed) };
            for (n, k) in order.into_iter().enumerate() {
                let decoy = seed != 0 && mix(seed, 300 + n as u64) & 1 == 0;
                match k {
                    0 => {
                        if decoy {
                            b = b.clean_start(!*clean);
                        }
                        b = b.clean_start(*clean);
                    }
                    1 => {
                        if decoy {
                            b = b.keep_alive(*keep_alive ^ 0x5A5A);
                        }
                        b = b.keep_alive(*keep_alive);
                    }
                    2 => {
                        if let Some(w) = will {
                            if decoy {
                                b = lib(b.will_message("decoy/topic", b"decoy".to_vec(), qos((w.qos + 1) % 3)?, !w.retain))?;
                            }
                            b = lib(b.will_message(s(&w.topic)?, w.payload.clone(), qos(w.qos)?, w.retain))?;
                        }
                    }
                    3 => {
                        if let Some(u) = user {
                            if decoy {
                                b = lib(b.user_name("decoy"))?;
                            }
                            b = lib(b.user_name(s(u)?))?;
                        }
                    }
                    4 => {
                        if let Some(pw) = pass {
                            if decoy {
                                b = lib(b.password(b"decoy".to_vec()))?;
                            }
                            b = lib(b.password(pw.clone()))?;
                        }
                    }
                    5 => {
                        if !props.is_empty() {
                            if decoy {
                                b = b.props(vec![]);
                            }
                            b = b.props(props_to_lib(props)?);
                        }
                    }
                    _ => {
                        if let Some(w) = will {
                            if !w.props.is_empty() {
                                if decoy {
                                    b = b.will_props(vec![]);
                                }
                                b = b.will_props(props_to_lib(&w.props)?);
                            }
                        }
                    }
                }
            }
            lib(b.build())?.into()
        }
        Pkt::Connack { ver: Ver::V311, sp, code: c, .. } => {
            lib(v3::Connack::builder().session_present(*sp).return_code(code::<ConnectReturnCode>(*c)?).build())?.into()
        }
        Pkt::Connack { ver: Ver::V5, sp, code: c, props } => {
            let mut b = v5::Connack::builder().session_present(*sp).reason_code(code::<ConnectReasonCode>(*c)?);
            if !props.is_empty() {
                b = b.props(props_to_lib(props)?);
            }
            lib(b.build())?.into()
        }
        Pkt::Publish { ver: Ver::V311, dup, qos: q, retain, topic, id, payload, .. } => {
            let seed = order_seed();
            let mut b = lib(v3::GenericPublish::<P>::builder().topic_name(s(topic)?))?;
            let order = if seed == 0 { vec![0, 1, 2, 3, 4] } else { permutation(5, seed) };
            for (n, k) in order.into_iter().enumerate() {
                let decoy = seed != 0 && mix(seed, 400 + n as u64) & 1 == 0;
                match k {
                    0 => {
                        if decoy {
                            b = b.qos(qos((*q + 1) % 3)?);
                        }
                        b = b.qos(qos(*q)?);
                    }
                    1 => {
                        if decoy {
                            b = b.dup(!*dup);
                        }
                        b = b.dup(*dup);
                    }
                    2 => {
                        if decoy {
                            b = b.retain(!*retain);
                        }
                        b = b.retain(*retain);
                    }
                    3 => {
                        if decoy {
                            b = b.payload(b"decoy".to_vec());
                        }
                        b = b.payload(payload.clone());
                    }
                    _ => {
                        if let Some(i) = id {
                            if decoy {
                                b = b.packet_id(P::from_u32(i ^ 1));
                            }
                            b = b.packet_id(P::from_u32(*i));
                        }
                    }
                }
            }
            lib(b.build())?.into()
        }
        Pkt::Publish { ver: Ver::V5, dup, qos: q, retain, topic, id, props, payload } => {
            let seed = order_seed();
            let mut b = lib(v5::GenericPublish::<P>::builder().topic_name(s(topic)?))?;
            let order = if seed == 0 { vec![0, 1, 2, 3, 4, 5] } else { permutation(6, seed) };
            for (n, k) in order.into_iter().enumerate() {
                let decoy = seed != 0 && mix(seed, 500 + n as u64) & 1 == 0;
                match k {
                    0 => {
                        if decoy {
                            b = b.qos(qos((*q + 1) % 3)?);
                        }
                        b = b.qos(qos(*q)?);
                    }
                    1 => {
                        if decoy {
                            b = b.dup(!*dup);
                        }
                        b = b.dup(*dup);
                    }
                    2 => {
                        if decoy {
                            b = b.retain(!*retain);
                        }
                        b = b.retain(*retain);
                    }
                    3 => {
                        if decoy {
                            b = b.payload(b"decoy".to_vec());
                        }
                        b = b.payload(payload.clone());
                    }
                    4 => {
                        if let Some(i) = id {
                            if decoy {
                                b = b.packet_id(P::from_u32(i ^ 1));
                            }
                            b = b.packet_id(P::from_u32(*i));
                        }
                    }
                    _ => {
                        if !props.is_empty() {
                            if decoy {
                                b = b.props(vec![]);
                            }
                            b = b.props(props_to_lib(props)?);
                        }
                    }
                }
            }
            lib(b.build())?.into()
        }
        Pkt::Ack { ver: Ver::V311, kind, id, .. } => {
            let i = P::from_u32(*id);
            match kind {
                AckKind::Puback => lib(v3::GenericPuback::<P>::builder().packet_id(i).build())?.into(),
                AckKind::Pubrec => lib(v3::GenericPubrec::<P>::builder().packet_id(i).build())?.into(),
                AckKind::Pubrel => lib(v3::GenericPubrel::<P>::builder().packet_id(i).build())?.into(),
                AckKind::Pubcomp => lib(v3::GenericPubcomp::<P>::builder().packet_id(i).build())?.into(),
            }
        }
        Pkt::Ack { ver: Ver::V5, kind, id, code: c, props } => {
            let i = P::from_u32(*id);
            macro_rules! ack {
                ($t:ident, $rc:ty) => {{
                    let mut b = v5::$t::<P>::builder().packet_id(i);
                    if let Some(c) = c {
                        b = b.reason_code(code::<$rc>(*c)?);
                    }
                    if let Some(ps) = props {
                        b = b.props(props_to_lib(ps)?);
                    }
                    lib(b.build())?.into()
                }};
            }
            match kind {
                AckKind::Puback => ack!(GenericPuback, PubackReasonCode),
                AckKind::Pubrec => ack!(GenericPubrec, PubrecReasonCode),
                AckKind::Pubrel => ack!(GenericPubrel, PubrelReasonCode),
                AckKind::Pubcomp => ack!(GenericPubcomp, PubcompReasonCode),
            }
        }
        Pkt::Subscribe { ver, id, props, entries } => {
            let mut es = Vec::new();
            for (t, o) in entries {
                es.push(lib(SubEntry::new(s(t)?, subopts(*o)?))?);
            }
            if *ver == Ver::V311 {
                lib(v3::GenericSubscribe::<P>::builder().packet_id(P::from_u32(*id)).entries(es).build())?.into()
            } else {
                let mut b = v5::GenericSubscribe::<P>::builder().packet_id(P::from_u32(*id)).entries(es);
                if !props.is_empty() {
                    b = b.props(props_to_lib(props)?);
                }
                lib(b.build())?.into()
            }
        }
        Pkt::Suback { ver: Ver::V311, id, codes, .. } => {
            let cs: Result<Vec<SubackReturnCode>, BuildErr> = codes.iter().map(|c| code(*c)).collect();
            lib(v3::GenericSuback::<P>::builder().packet_id(P::from_u32(*id)).return_codes(cs?).build())?.into()
        }
        Pkt::Suback { ver: Ver::V5, id, props, codes } => {
            let cs: Result<Vec<SubackReasonCode>, BuildErr> = codes.iter().map(|c| code(*c)).collect();
            let mut b = v5::GenericSuback::<P>::builder().packet_id(P::from_u32(*id)).reason_codes(cs?);
            if !props.is_empty() {
                b = b.props(props_to_lib(props)?);
            }
            lib(b.build())?.into()
        }
        Pkt::Unsubscribe { ver, id, props, entries } => {
            let mut es: Vec<&str> = Vec::new();
            for t in entries {
                es.push(s(t)?);
            }
            if *ver == Ver::V311 {
                lib(lib(v3::GenericUnsubscribe::<P>::builder().packet_id(P::from_u32(*id)).entries(es))?.build())?.into()
            } else {
                let mut b = lib(v5::GenericUnsubscribe::<P>::builder().packet_id(P::from_u32(*id)).entries(es))?;
                if !props.is_empty() {
                    b = b.props(props_to_lib(props)?);
                }
                lib(b.build())?.into()
            }
        }
        Pkt::Unsuback { ver: Ver::V311, id, .. } => {
            lib(v3::GenericUnsuback::<P>::builder().packet_id(P::from_u32(*id)).build())?.into()
        }
        Pkt::Unsuback { ver: Ver::V5, id, props, codes } => {
            let cs: Result<Vec<UnsubackReasonCode>, BuildErr> = codes.iter().map(|c| code(*c)).collect();
            let mut b = v5::GenericUnsuback::<P>::builder().packet_id(P::from_u32(*id)).reason_codes(cs?);
            if !props.is_empty() {
                b = b.props(props_to_lib(props)?);
            }
            lib(b.build())?.into()
        }
        Pkt::Pingreq { ver: Ver::V311 } => lib(v3::Pingreq::builder().build())?.into(),
        Pkt::Pingreq { ver: Ver::V5 } => lib(v5::Pingreq::builder().build())?.into(),
        Pkt::Pingresp { ver: Ver::V311 } => lib(v3::Pingresp::builder().build())?.into(),
        Pkt::Pingresp { ver: Ver::V5 } => lib(v5::Pingresp::builder().build())?.into(),
        Pkt::Disconnect { ver: Ver::V311, .. } => lib(v3::Disconnect::builder().build())?.into(),
        Pkt::Disconnect { ver: Ver::V5, code: c, props } => {
            let mut b = v5::Disconnect::builder();
            if let Some(c) = c {
                b = b.reason_code(code::<DisconnectReasonCode>(*c)?);
            }
            if let Some(ps) = props {
                b = b.props(props_to_lib(ps)?);
            }
            lib(b.build())?.into()
        }
        Pkt::Auth { code: c, props } => {
            let mut b = v5::Auth::builder();
            if let Some(c) = c {
                b = b.reason_code(code::<AuthReasonCode>(*c)?);
            }
            if let Some(ps) = props {
                b = b.props(props_to_lib(ps)?);
            }
            lib(b.build())?.into()
        }
    })
}

fn q(x: Qos) -> u8 {
    x as u8
}

/// Read every field of a library packet through its public accessors.
pub fn from_lib<P: Pid>(p: &GenericPacket<P>) -> Pkt {
    use GenericPacket as G;
    match p {
        G::V3_1_1Connect(c) => Pkt::Connect {
            ver: Ver::V311,
            clean: c.clean_session(),
            keep_alive: c.keep_alive(),
            client_id: c.client_id().as_bytes().to_vec(),
            will: if c.will_flag() {
                Some(Will {
                    topic: c.will_topic().unwrap_or("").as_bytes().to_vec(),
                    payload: c.will_payload().unwrap_or(&[]).to_vec(),
                    qos: q(c.will_qos()),
                    retain: c.will_retain(),
                    props: vec![],
                })
            } else {
                None
            },
            user: c.user_name().map(|u| u.as_bytes().to_vec()),
            pass: c.password().map(|u| u.to_vec()),
            props: vec![],
        },
        G::V5_0Connect(c) => Pkt::Connect {
            ver: Ver::V5,
            clean: c.clean_start(),
            keep_alive: c.keep_alive(),
            client_id: c.client_id().as_bytes().to_vec(),
            will: if c.will_flag() {
                Some(Will {
                    topic: c.will_topic().unwrap_or("").as_bytes().to_vec(),
                    payload: c.will_payload().unwrap_or(&[]).to_vec(),
                    qos: q(c.will_qos()),
                    retain: c.will_retain(),
                    props: props_from_lib(c.will_props()),
                })
            } else {
                None
            },
            user: c.user_name().map(|u| u.as_bytes().to_vec()),
            pass: c.password().map(|u| u.to_vec()),
            props: props_from_lib(c.props()),
        },
        G::V3_1_1Connack(c) => {
            Pkt::Connack { ver: Ver::V311, sp: c.session_present(), code: c.return_code() as u8, props: vec![] }
        }
        G::V5_0Connack(c) => Pkt::Connack {
            ver: Ver::V5,
            sp: c.session_present(),
            code: c.reason_code() as u8,
            props: props_from_lib(c.props()),
        },
        G::V3_1_1Publish(c) => Pkt::Publish {
            ver: Ver::V311,
            dup: c.dup(),
            qos: q(c.qos()),
            retain: c.retain(),
            topic: c.topic_name().as_bytes().to_vec(),
            id: c.packet_id().map(|i| i.to_u32()),
            props: vec![],
            payload: c.payload().as_slice().to_vec(),
        },
        G::V5_0Publish(c) => Pkt::Publish {
            ver: Ver::V5,
            dup: c.dup(),
            qos: q(c.qos()),
            retain: c.retain(),
            topic: c.topic_name().as_bytes().to_vec(),
            id: c.packet_id().map(|i| i.to_u32()),
            props: props_from_lib(c.props()),
            payload: c.payload().as_slice().to_vec(),
        },
        G::V3_1_1Puback(c) => {
            Pkt::Ack { ver: Ver::V311, kind: AckKind::Puback, id: c.packet_id().to_u32(), code: None, props: None }
        }
        G::V3_1_1Pubrec(c) => {
            Pkt::Ack { ver: Ver::V311, kind: AckKind::Pubrec, id: c.packet_id().to_u32(), code: None, props: None }
        }
        G::V3_1_1Pubrel(c) => {
            Pkt::Ack { ver: Ver::V311, kind: AckKind::Pubrel, id: c.packet_id().to_u32(), code: None, props: None }
        }
        G::V3_1_1Pubcomp(c) => {
            Pkt::Ack { ver: Ver::V311, kind: AckKind::Pubcomp, id: c.packet_id().to_u32(), code: None, props: None }
        }
        G::V5_0Puback(c) => Pkt::Ack {
            ver: Ver::V5,
            kind: AckKind::Puback,
            id: c.packet_id().to_u32(),
            code: c.reason_code().map(|r| r as u8),
            props: c.props().as_ref().map(|p| props_from_lib(p)),
        },
        G::V5_0Pubrec(c) => Pkt::Ack {
            ver: Ver::V5,
            kind: AckKind::Pubrec,
            id: c.packet_id().to_u32(),
            code: c.reason_code().map(|r| r as u8),
            props: c.props().as_ref().map(|p| props_from_lib(p)),
        },
        G::V5_0Pubrel(c) => Pkt::Ack {
            ver: Ver::V5,
            kind: AckKind::Pubrel,
            id: c.packet_id().to_u32(),
            code: c.reason_code().map(|r| r as u8),
            props: c.props().as_ref().map(|p| props_from_lib(p)),
        },
        G::V5_0Pubcomp(c) => Pkt::Ack {
            ver: Ver::V5,
            kind: AckKind::Pubcomp,
            id: c.packet_id().to_u32(),
            code: c.reason_code().map(|r| r as u8),
            props: c.props().as_ref().map(|p| props_from_lib(p)),
        },
        G::V3_1_1Subscribe(c) => Pkt::Subscribe {
            ver: Ver::V311,
            id: c.packet_id().to_u32(),
            props: vec![],
            entries: c
                .entries()
                .iter()
                .map(|e| (e.topic_filter().as_bytes().to_vec(), e.sub_opts().to_buffer()[0]))
                .collect(),
        },
        G::V5_0Subscribe(c) => Pkt::Subscribe {
            ver: Ver::V5,
            id: c.packet_id().to_u32(),
            props: props_from_lib(c.props()),
            entries: c
                .entries()
                .iter()
                .map(|e| (e.topic_filter().as_bytes().to_vec(), e.sub_opts().to_buffer()[0]))
                .collect(),
        },
        G::V3_1_1Suback(c) => Pkt::Suback {
            ver: Ver::V311,
            id: c.packet_id().to_u32(),
            props: vec![],
            codes: c.return_codes().iter().map(|r| *r as u8).collect(),
        },
        G::V5_0Suback(c) => Pkt::Suback {
            ver: Ver::V5,
            id: c.packet_id().to_u32(),
            props: props_from_lib(c.props()),
            codes: c.reason_codes().iter().map(|r| *r as u8).collect(),
        },
        G::V3_1_1Unsubscribe(c) => Pkt::Unsubscribe {
            ver: Ver::V311,
            id: c.packet_id().to_u32(),
            props: vec![],
            entries: c.entries().iter().map(|e| e.as_str().as_bytes().to_vec()).collect(),
        },
        G::V5_0Unsubscribe(c) => Pkt::Unsubscribe {
            ver: Ver::V5,
            id: c.packet_id().to_u32(),
            props: props_from_lib(c.props()),
            entries: c.entries().iter().map(|e| e.as_str().as_bytes().to_vec()).collect(),
        },
        G::V3_1_1Unsuback(c) => Pkt::Unsuback { ver: Ver::V311, id: c.packet_id().to_u32(), props: vec![], codes: vec![] },
        G::V5_0Unsuback(c) => Pkt::Unsuback {
            ver: Ver::V5,
            id: c.packet_id().to_u32(),
            props: props_from_lib(c.props()),
            codes: c.reason_codes().iter().map(|r| *r as u8).collect(),
        },
        G::V3_1_1Pingreq(_) => Pkt::Pingreq { ver: Ver::V311 },
        G::V5_0Pingreq(_) => Pkt::Pingreq { ver: Ver::V5 },
        G::V3_1_1Pingresp(_) => Pkt::Pingresp { ver: Ver::V311 },
        G::V5_0Pingresp(_) => Pkt::Pingresp { ver: Ver::V5 },
        G::V3_1_1Disconnect(_) => Pkt::Disconnect { ver: Ver::V311, code: None, props: None },
        G::V5_0Disconnect(c) => Pkt::Disconnect {
            ver: Ver::V5,
            code: c.reason_code().map(|r| r as u8),
            props: c.props().as_ref().map(|p| props_from_lib(p)),
        },
        G::V5_0Auth(c) => {
            Pkt::Auth { code: c.reason_code().map(|r| r as u8), props: c.props().as_ref().map(|p| props_from_lib(p)) }
        }
    }
}

pub fn store_to_generic<P: Pid>(sp: &GenericStorePacket<P>) -> GenericPacket<P> {
    sp.clone().into()
}
