//! Independent reference encoder/decoder written from OASIS MQTT 3.1.1 §2-3 and MQTT 5.0 §2-3.
//! Shares no code or constants with the library. `idw` = packet identifier width in bytes
//! (2 = the spec; 4 = the library's documented u32 extension, same layout with a 4-byte id).

use crate::apkt::*;

// ------------------------------------------------------------------------------------------------
// primitives

pub fn vbi_encode(mut v: u32, out: &mut Vec<u8>) {
    // MQTT 5.0 §1.5.5 (non-normative algorithm)
    loop {
        let mut b = (v % 128) as u8;
        v /= 128;
        if v > 0 {
            b |= 0x80;
        }
        out.push(b);
        if v == 0 {
            break;
        }
    }
}
pub fn vbi_len(v: u32) -> usize {
    if v < 128 {
        1
    } else if v < 16_384 {
        2
    } else if v < 2_097_152 {
        3
    } else {
        4
    }
}
pub const VBI_MAX: u32 = 268_435_455;

/// Decode a VBI; returns (value, bytes used). Rejects > 4 bytes and non-minimal encodings.
pub fn vbi_decode(b: &[u8]) -> Result<(u32, usize), String> {
    let mut mult: u32 = 1;
    let mut val: u32 = 0;
    for i in 0..4 {
        let x = *b.get(i).ok_or("vbi: truncated")?;
        val += (x & 0x7F) as u32 * mult;
        if x & 0x80 == 0 {
            if vbi_len(val) != i + 1 {
                return Err("vbi: non-minimal".into());
            }
            return Ok((val, i + 1));
        }
        mult *= 128;
    }
    Err("vbi: more than 4 bytes".into())
}

fn put_u16(v: u16, out: &mut Vec<u8>) {
    out.push((v >> 8) as u8);
    out.push(v as u8);
}
fn put_u32(v: u32, out: &mut Vec<u8>) {
    out.extend_from_slice(&[(v >> 24) as u8, (v >> 16) as u8, (v >> 8) as u8, v as u8]);
}
fn put_bin(b: &[u8], out: &mut Vec<u8>) {
    assert!(b.len() <= 65535, "refcodec: string/binary longer than 65535");
    put_u16(b.len() as u16, out);
    out.extend_from_slice(b);
}
fn put_id(id: u32, idw: usize, out: &mut Vec<u8>) {
    if idw == 2 {
        put_u16(id as u16, out);
    } else {
        put_u32(id, out);
    }
}

pub fn encode_prop(p: &Prop, out: &mut Vec<u8>) {
    out.push(p.id);
    match &p.val {
        PVal::Byte(v) => out.push(*v),
        PVal::U16(v) => put_u16(*v, out),
        PVal::U32(v) => put_u32(*v, out),
        PVal::Vbi(v) => vbi_encode(*v, out),
        PVal::Str(s) | PVal::Bin(s) => put_bin(s, out),
        PVal::Pair(k, v) => {
            put_bin(k, out);
            put_bin(v, out);
        }
    }
}
/// property length + properties
pub fn encode_props(props: &[Prop], out: &mut Vec<u8>) {
    let mut body = Vec::new();
    for p in props {
        encode_prop(p, &mut body);
    }
    vbi_encode(body.len() as u32, out);
    out.extend_from_slice(&body);
}

fn frame(first: u8, body: Vec<u8>) -> Vec<u8> {
    let mut out = Vec::with_capacity(body.len() + 5);
    out.push(first);
    vbi_encode(body.len() as u32, &mut out);
    out.extend_from_slice(&body);
    out
}

// ------------------------------------------------------------------------------------------------
// encoder

/// Full frame (fixed header + remaining length + body) the spec prescribes for `p`.
pub fn encode(p: &Pkt, idw: usize) -> Vec<u8> {
    let mut b = Vec::new();
    match p {
        Pkt::Connect { ver, clean, keep_alive, client_id, will, user, pass, props } => {
            b.extend_from_slice(&[0x00, 0x04, b'M', b'Q', b'T', b'T']);
            b.push(if *ver == Ver::V5 { 5 } else { 4 });
            let mut flags = 0u8;
            if *clean {
                flags |= 0x02;
            }
            if let Some(w) = will {
                flags |= 0x04;
                flags |= (w.qos & 3) << 3;
                if w.retain {
                    flags |= 0x20;
                }
            }
            if pass.is_some() {
                flags |= 0x40;
            }
            if user.is_some() {
                flags |= 0x80;
            }
            b.push(flags);
            put_u16(*keep_alive, &mut b);
            if *ver == Ver::V5 {
                encode_props(props, &mut b);
            }
            put_bin(client_id, &mut b);
            if let Some(w) = will {
                if *ver == Ver::V5 {
                    encode_props(&w.props, &mut b);
                }
                put_bin(&w.topic, &mut b);
                put_bin(&w.payload, &mut b);
            }
            if let Some(u) = user {
                put_bin(u, &mut b);
            }
            if let Some(pw) = pass {
                put_bin(pw, &mut b);
            }
            frame(0x10, b)
        }
        Pkt::Connack { ver, sp, code, props } => {
            b.push(if *sp { 1 } else { 0 });
            b.push(*code);
            if *ver == Ver::V5 {
                encode_props(props, &mut b);
            }
            frame(0x20, b)
        }
        Pkt::Publish { ver, dup, qos, retain, topic, id, props, payload } => {
            let first = 0x30 | ((*dup as u8) << 3) | ((qos & 3) << 1) | (*retain as u8);
            put_bin(topic, &mut b);
            if *qos > 0 {
                put_id(id.expect("refcodec: QoS>0 publish without id"), idw, &mut b);
            }
            if *ver == Ver::V5 {
                encode_props(props, &mut b);
            }
            b.extend_from_slice(payload);
            frame(first, b)
        }
        Pkt::Ack { ver, kind, id, code, props } => {
            let first = match kind {
                AckKind::Puback => 0x40,
                AckKind::Pubrec => 0x50,
                AckKind::Pubrel => 0x62,
                AckKind::Pubcomp => 0x70,
            };
            put_id(*id, idw, &mut b);
            if *ver == Ver::V5 {
                if let Some(c) = code {
                    b.push(*c);
                    if let Some(ps) = props {
                        encode_props(ps, &mut b);
                    }
                }
            }
            frame(first, b)
        }
        Pkt::Subscribe { ver, id, props, entries } => {
            put_id(*id, idw, &mut b);
            if *ver == Ver::V5 {
                encode_props(props, &mut b);
            }
            for (t, o) in entries {
                put_bin(t, &mut b);
                b.push(*o);
            }
            frame(0x82, b)
        }
        Pkt::Suback { ver, id, props, codes } => {
            put_id(*id, idw, &mut b);
            if *ver == Ver::V5 {
                encode_props(props, &mut b);
            }
            b.extend_from_slice(codes);
            frame(0x90, b)
        }
        Pkt::Unsubscribe { ver, id, props, entries } => {
            put_id(*id, idw, &mut b);
            if *ver == Ver::V5 {
                encode_props(props, &mut b);
            }
            for t in entries {
                put_bin(t, &mut b);
            }
            frame(0xA2, b)
        }
        Pkt::Unsuback { ver, id, props, codes } => {
            put_id(*id, idw, &mut b);
            if *ver == Ver::V5 {
                encode_props(props, &mut b);
                b.extend_from_slice(codes);
            }
            frame(0xB0, b)
        }
        Pkt::Pingreq { .. } => frame(0xC0, b),
        Pkt::Pingresp { .. } => frame(0xD0, b),
        Pkt::Disconnect { ver, code, props } => {
            if *ver == Ver::V5 {
                if let Some(c) = code {
                    b.push(*c);
                    if let Some(ps) = props {
                        encode_props(ps, &mut b);
                    }
                }
            }
            frame(0xE0, b)
        }
        Pkt::Auth { code, props } => {
            if let Some(c) = code {
                b.push(*c);
                if let Some(ps) = props {
                    encode_props(ps, &mut b);
                }
            }
            frame(0xF0, b)
        }
    }
}

// ------------------------------------------------------------------------------------------------
// reference framer

/// One frame of a byte stream according to MQTT §2.2: returns total frame length.
#[derive(Debug, Clone, PartialEq, Eq)]
pub enum Framed {
    /// complete frame: (header byte, offset of body, total length)
    Frame { first: u8, body_off: usize, total: usize },
    /// need more bytes
    Partial,
    /// the 4th length byte has its continuation bit set: error reported at `at` (bytes consumed incl. that byte)
    OverlongLength { at: usize },
}
pub fn frame_at(s: &[u8]) -> Framed {
    if s.is_empty() {
        return Framed::Partial;
    }
    let mut mult: usize = 1;
    let mut val: usize = 0;
    for i in 0..4 {
        let Some(x) = s.get(1 + i) else { return Framed::Partial };
        val += (*x & 0x7F) as usize * mult;
        mult *= 128;
        if x & 0x80 == 0 {
            let body_off = 2 + i;
            let total = body_off + val;
            if s.len() < total {
                return Framed::Partial;
            }
            return Framed::Frame { first: s[0], body_off, total };
        }
    }
    Framed::OverlongLength { at: 5 }
}

// ------------------------------------------------------------------------------------------------
// decoder

/// positions of length-bearing / identifying fields met while decoding (offsets within the body)
#[derive(Debug, Clone, Copy, PartialEq, Eq)]
pub enum Mark {
    /// two-byte length prefix of a string/binary at this offset
    Len16(usize),
    /// variable byte integer at offset, encoded in n bytes
    Vbi(usize, usize),
    /// packet identifier at offset
    Id(usize),
    /// single significant byte (reason code, flags, option byte, property id)
    Byte(usize),
    /// a whole property (start, end)
    PropSpan(usize, usize),
}

struct Rd<'a> {
    b: &'a [u8],
    p: usize,
    marks: Vec<Mark>,
}
impl<'a> Rd<'a> {
    fn left(&self) -> usize {
        self.b.len() - self.p
    }
    fn u8(&mut self) -> Result<u8, String> {
        let v = *self.b.get(self.p).ok_or("truncated")?;
        self.p += 1;
        Ok(v)
    }
    fn mbyte(&mut self) -> Result<u8, String> {
        self.marks.push(Mark::Byte(self.p));
        self.u8()
    }
    fn u16(&mut self) -> Result<u16, String> {
        Ok(((self.u8()? as u16) << 8) | self.u8()? as u16)
    }
    fn u32(&mut self) -> Result<u32, String> {
        Ok(((self.u16()? as u32) << 16) | self.u16()? as u32)
    }
    fn id(&mut self, idw: usize) -> Result<u32, String> {
        self.marks.push(Mark::Id(self.p));
        if idw == 2 {
            Ok(self.u16()? as u32)
        } else {
            self.u32()
        }
    }
    fn bin(&mut self) -> Result<Vec<u8>, String> {
        self.marks.push(Mark::Len16(self.p));
        let n = self.u16()? as usize;
        if self.left() < n {
            return Err("truncated string/binary".into());
        }
        let v = self.b[self.p..self.p + n].to_vec();
        self.p += n;
        Ok(v)
    }
    fn str(&mut self) -> Result<Vec<u8>, String> {
        let v = self.bin()?;
        std::str::from_utf8(&v).map_err(|_| "invalid utf-8".to_string())?;
        Ok(v)
    }
    fn vbi(&mut self) -> Result<u32, String> {
        let (v, n) = vbi_decode(&self.b[self.p..])?;
        self.marks.push(Mark::Vbi(self.p, n));
        self.p += n;
        Ok(v)
    }
    fn rest(&mut self) -> Vec<u8> {
        let v = self.b[self.p..].to_vec();
        self.p = self.b.len();
        v
    }
    fn props(&mut self) -> Result<Vec<Prop>, String> {
        let len = self.vbi()? as usize;
        if self.left() < len {
            return Err("property length beyond packet".into());
        }
        let end = self.p + len;
        let mut sub = Rd { b: &self.b[..end], p: self.p, marks: Vec::new() };
        let mut out = Vec::new();
        while sub.p < end {
            let start = sub.p;
            let id = sub.mbyte()?;
            let ty = prop_type(id).ok_or_else(|| format!("unknown property id {}", id))?;
            let val = match ty {
                PType::Byte => PVal::Byte(sub.u8()?),
                PType::U16 => PVal::U16(sub.u16()?),
                PType::U32 => PVal::U32(sub.u32()?),
                PType::Vbi => PVal::Vbi(sub.vbi()?),
                PType::Str => PVal::Str(sub.str()?),
                PType::Bin => PVal::Bin(sub.bin()?),
                PType::Pair => {
                    let k = sub.str()?;
                    let v = sub.str()?;
                    PVal::Pair(k, v)
                }
            };
            out.push(Prop { id, val });
            sub.marks.push(Mark::PropSpan(start, sub.p));
        }
        self.marks.extend(sub.marks);
        self.p = end;
        Ok(out)
    }
}

/// Decode one complete frame (header + length + body) under the given protocol version.
/// Structural decoding only (what bytes mean); placement/value legality is not judged here.
pub fn decode(frame: &[u8], ver: Ver, idw: usize) -> Result<Pkt, String> {
    decode_marks(frame, ver, idw).map(|x| x.0)
}

/// decode + the positions (relative to the body) of every length field / id / significant byte
pub fn decode_marks(frame: &[u8], ver: Ver, idw: usize) -> Result<(Pkt, Vec<Mark>), String> {
    let Framed::Frame { first, body_off, total } = frame_at(frame) else {
        return Err("not one complete frame".into());
    };
    if total != frame.len() {
        return Err("trailing bytes after frame".into());
    }
    let mut r = Rd { b: &frame[body_off..], p: 0, marks: Vec::new() };
    let ty = first >> 4;
    let fl = first & 0x0F;
    let need_flags = |want: u8| -> Result<(), String> {
        if fl != want {
            Err(format!("reserved flags {:#x} != {:#x}", fl, want))
        } else {
            Ok(())
        }
    };
    let v5 = ver == Ver::V5;
    let pkt = match ty {
        1 => {
            need_flags(0)?;
            let name = r.bin()?;
            if name != b"MQTT" {
                return Err("protocol name".into());
            }
            let level = r.u8()?;
            if level != if v5 { 5 } else { 4 } {
                return Err("protocol level".into());
            }
            let flags = r.mbyte()?;
            if flags & 1 != 0 {
                return Err("reserved connect flag".into());
            }
            let keep_alive = r.u16()?;
            let props = if v5 { r.props()? } else { vec![] };
            let client_id = r.str()?;
            let will = if flags & 0x04 != 0 {
                let wprops = if v5 { r.props()? } else { vec![] };
                let topic = r.str()?;
                let payload = r.bin()?;
                let qos = (flags >> 3) & 3;
                if qos == 3 {
                    return Err("will qos 3".into());
                }
                Some(Will { topic, payload, qos, retain: flags & 0x20 != 0, props: wprops })
            } else {
                if flags & 0x38 != 0 {
                    return Err("will qos/retain without will".into());
                }
                None
            };
            let user = if flags & 0x80 != 0 { Some(r.str()?) } else { None };
            let pass = if flags & 0x40 != 0 { Some(r.bin()?) } else { None };
            Pkt::Connect { ver, clean: flags & 2 != 0, keep_alive, client_id, will, user, pass, props }
        }
        2 => {
            need_flags(0)?;
            let ack = r.mbyte()?;
            if ack > 1 {
                return Err("connack flags".into());
            }
            let code = r.mbyte()?;
            let props = if v5 { r.props()? } else { vec![] };
            Pkt::Connack { ver, sp: ack == 1, code, props }
        }
        3 => {
            let qos = (fl >> 1) & 3;
            if qos == 3 {
                return Err("qos 3".into());
            }
            let topic = r.str()?;
            let id = if qos > 0 { Some(r.id(idw)?) } else { None };
            let props = if v5 { r.props()? } else { vec![] };
            let payload = r.rest();
            Pkt::Publish { ver, dup: fl & 8 != 0, qos, retain: fl & 1 != 0, topic, id, props, payload }
        }
        4 | 5 | 6 | 7 => {
            need_flags(if ty == 6 { 2 } else { 0 })?;
            let kind = match ty {
                4 => AckKind::Puback,
                5 => AckKind::Pubrec,
                6 => AckKind::Pubrel,
                _ => AckKind::Pubcomp,
            };
            let id = r.id(idw)?;
            let (code, props) = if v5 && r.left() > 0 {
                let c = r.mbyte()?;
                let ps = if r.left() > 0 { Some(r.props()?) } else { None };
                (Some(c), ps)
            } else {
                (None, None)
            };
            Pkt::Ack { ver, kind, id, code, props }
        }
        8 => {
            need_flags(2)?;
            let id = r.id(idw)?;
            let props = if v5 { r.props()? } else { vec![] };
            let mut entries = Vec::new();
            while r.left() > 0 {
                let t = r.str()?;
                let o = r.mbyte()?;
                entries.push((t, o));
            }
            Pkt::Subscribe { ver, id, props, entries }
        }
        9 => {
            need_flags(0)?;
            let id = r.id(idw)?;
            let props = if v5 { r.props()? } else { vec![] };
            let codes = r.rest();
            Pkt::Suback { ver, id, props, codes }
        }
        10 => {
            need_flags(2)?;
            let id = r.id(idw)?;
            let props = if v5 { r.props()? } else { vec![] };
            let mut entries = Vec::new();
            while r.left() > 0 {
                entries.push(r.str()?);
            }
            Pkt::Unsubscribe { ver, id, props, entries }
        }
        11 => {
            need_flags(0)?;
            let id = r.id(idw)?;
            let (props, codes) = if v5 { (r.props()?, r.rest()) } else { (vec![], vec![]) };
            Pkt::Unsuback { ver, id, props, codes }
        }
        12 => {
            need_flags(0)?;
            Pkt::Pingreq { ver }
        }
        13 => {
            need_flags(0)?;
            Pkt::Pingresp { ver }
        }
        14 => {
            need_flags(0)?;
            let (code, props) = if v5 && r.left() > 0 {
                let c = r.mbyte()?;
                let ps = if r.left() > 0 { Some(r.props()?) } else { None };
                (Some(c), ps)
            } else {
                (None, None)
            };
            Pkt::Disconnect { ver, code, props }
        }
        15 => {
            if !v5 {
                return Err("AUTH under v3.1.1".into());
            }
            need_flags(0)?;
            let (code, props) = if r.left() > 0 {
                let c = r.mbyte()?;
                let ps = if r.left() > 0 { Some(r.props()?) } else { None };
                (Some(c), ps)
            } else {
                (None, None)
            };
            Pkt::Auth { code, props }
        }
        _ => return Err("packet type 0".into()),
    };
    if r.left() != 0 {
        return Err("trailing bytes in body".into());
    }
    Ok((pkt, r.marks))
}

// ------------------------------------------------------------------------------------------------
// reason-code tables (per packet), from the spec sections 3.2.2.2, 3.4.2.1, 3.5.2.1, 3.6.2.1, 3.7.2.1,
// 3.9.3, 3.11.3, 3.14.2.1, 3.15.2.1 (v5.0) and 3.2.2.3, 3.9.3 (v3.1.1)

pub const CONNACK_V5: &[u8] = &[
    0x00, 0x80, 0x81, 0x82, 0x83, 0x84, 0x85, 0x86, 0x87, 0x88, 0x89, 0x8A, 0x8C, 0x90, 0x95, 0x97, 0x99, 0x9A, 0x9B,
    0x9C, 0x9D, 0x9F,
];
pub const CONNACK_V311: &[u8] = &[0, 1, 2, 3, 4, 5];
pub const PUBACK_V5: &[u8] = &[0x00, 0x10, 0x80, 0x83, 0x87, 0x90, 0x91, 0x97, 0x99];
pub const PUBREC_V5: &[u8] = PUBACK_V5;
pub const PUBREL_V5: &[u8] = &[0x00, 0x92];
pub const PUBCOMP_V5: &[u8] = PUBREL_V5;
pub const SUBACK_V5: &[u8] = &[0x00, 0x01, 0x02, 0x80, 0x83, 0x87, 0x8F, 0x91, 0x97, 0x9E, 0xA1, 0xA2];
pub const SUBACK_V311: &[u8] = &[0x00, 0x01, 0x02, 0x80];
pub const UNSUBACK_V5: &[u8] = &[0x00, 0x11, 0x80, 0x83, 0x87, 0x8F, 0x91];
pub const DISCONNECT_V5: &[u8] = &[
    0x00, 0x04, 0x80, 0x81, 0x82, 0x83, 0x87, 0x89, 0x8B, 0x8D, 0x8E, 0x8F, 0x90, 0x93, 0x94, 0x95, 0x96, 0x97, 0x98,
    0x99, 0x9A, 0x9B, 0x9C, 0x9D, 0x9E, 0x9F, 0xA0, 0xA1, 0xA2,
];
pub const AUTH_V5: &[u8] = &[0x00, 0x18, 0x19];
