//! One module per property (or family of properties).

use crate::report::{Ctx, Report};

pub mod c04;
pub mod c18;
pub mod c20;
pub mod codec;
pub mod connmon;
pub mod matrix;
pub mod pair;
pub mod twins;

pub fn dispatch(ctx: &Ctx) -> Option<Report> {
    Some(match ctx.prop.as_str() {
        "C01" => pair::run(ctx),
        "C02" => codec::run_c02(ctx),
        "C03" => codec::run_c03(ctx),
        "C04" => c04::run(ctx),
        "C09" => twins::run_c09(ctx),
        "C10" => twins::run_c10(ctx),
        "C16" => twins::run_c16(ctx),
        "C11" => matrix::run_c11(ctx),
        "C17" => matrix::run_c17(ctx),
        "C18" => c18::run(ctx),
        "C20" => c20::run(ctx),
        "C05" | "C06" | "C07" | "C08" | "C12" | "C13" | "C14" | "C15" | "C19" => return connmon::run(ctx),
        _ => return None,
    })
}
