//! One module per property (or family of properties).

use crate::report::{Ctx, Report};

pub mod c20;

pub fn dispatch(ctx: &Ctx) -> Option<Report> {
    Some(match ctx.prop.as_str() {
        "C20" => c20::run(ctx),
        _ => return None,
    })
}
