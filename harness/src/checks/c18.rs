//! C18 - v5.0 property placement / multiplicity / forbidden values: the finite table
//! 27 property kinds x 14 locations x occurrence {1,2} x value class, enumerated exhaustively on the
//! builder path (public builders / property constructors) and the parser path (reference encoding
//! of a minimal valid carrier packet fed to the library parser).

use crate::apkt::*;
use crate::bridge::{self, BuildErr};
use crate::guard;
use crate::libcodec::*;
use crate::refcodec as rc;
use crate::report::{run_cases, Ctx, Report, Violation};
use crate::rng::Rng;
use serde_json::json;

pub(crate) fn legal_value(id: u8) -> PVal {
    match prop_type(id).unwrap() {
        PType::Byte => PVal::Byte(1),
        PType::U16 => PVal::U16(5),
        PType::U32 => PVal::U32(5),
        PType::Vbi => PVal::Vbi(5),
        PType::Str => PVal::Str(b"s".to_vec()),
        PType::Bin => PVal::Bin(b"b".to_vec()),
        PType::Pair => PVal::Pair(b"k".to_vec(), b"v".to_vec()),
    }
}
/// (description, value) classes for a property: one legal value, boundary legal values, each forbidden value
fn value_cells(id: u8) -> Vec<(&'static str, PVal)> {
    let mut v = vec![("legal", legal_value(id))];
    match prop_type(id).unwrap() {
        PType::Byte => {
            v.push(("legal-0", PVal::Byte(0)));
            v.push(("byte-2", PVal::Byte(2)));
            v.push(("byte-255", PVal::Byte(255)));
        }
        PType::U16 => {
            v.push(("u16-0", PVal::U16(0)));
            v.push(("u16-max", PVal::U16(65535)));
        }
        PType::U32 => {
            v.push(("u32-0", PVal::U32(0)));
            v.push(("u32-max", PVal::U32(u32::MAX)));
        }
        PType::Vbi => {
            v.push(("vbi-0", PVal::Vbi(0)));
            v.push(("vbi-max", PVal::Vbi(268_435_455)));
        }
        PType::Str => v.push(("empty-string", PVal::Str(vec![]))),
        PType::Bin => v.push(("empty-binary", PVal::Bin(vec![]))),
        PType::Pair => v.push(("empty-pair", PVal::Pair(vec![], vec![]))),
    }
    v
}

/// valid carrier of a location with the given property list. `variant` 0 is the minimal packet; variant 1 differs in
/// everything around the property list that the specification lets vary (a failure reason code, QoS 2 / RETAIN / DUP,
/// a kept session with credentials, several subscription entries): the verdict on the property list must not depend on it
pub(crate) fn carrier(loc: Loc, props: Vec<Prop>, auth_has_method: bool, variant: u8) -> Pkt {
    let v = Ver::V5;
    let alt = variant == 1;
    match loc {
        Loc::Connect => Pkt::Connect { ver: v, clean: !alt, keep_alive: if alt { 60 } else { 0 }, client_id: b"c".to_vec(), will: None, user: if alt { Some(b"u".to_vec()) } else { None }, pass: if alt { Some(b"p".to_vec()) } else { None }, props },
        Loc::Will => Pkt::Connect {
            ver: v,
            clean: true,
            keep_alive: 0,
            client_id: b"c".to_vec(),
            will: Some(Will { topic: b"w".to_vec(), payload: if alt { b"bye".to_vec() } else { vec![] }, qos: if alt { 2 } else { 0 }, retain: alt, props }),
            user: None,
            pass: None,
            props: if alt { vec![p_u32(P_SEI, 10)] } else { vec![] },
        },
        Loc::Connack => Pkt::Connack { ver: v, sp: false, code: if alt { 0x87 } else { 0 }, props },
        Loc::Publish => {
            if alt {
                Pkt::Publish { ver: v, dup: true, qos: 2, retain: true, topic: b"t/long/topic".to_vec(), id: Some(7), props, payload: b"payload".to_vec() }
            } else {
                Pkt::Publish { ver: v, dup: false, qos: 0, retain: false, topic: b"t".to_vec(), id: None, props, payload: vec![] }
            }
        }
        Loc::Puback => Pkt::Ack { ver: v, kind: AckKind::Puback, id: 1, code: Some(if alt { 0x80 } else { 0 }), props: Some(props) },
        Loc::Pubrec => Pkt::Ack { ver: v, kind: AckKind::Pubrec, id: 1, code: Some(if alt { 0x97 } else { 0 }), props: Some(props) },
        Loc::Pubrel => Pkt::Ack { ver: v, kind: AckKind::Pubrel, id: 1, code: Some(if alt { 0x92 } else { 0 }), props: Some(props) },
        Loc::Pubcomp => Pkt::Ack { ver: v, kind: AckKind::Pubcomp, id: 1, code: Some(if alt { 0x92 } else { 0 }), props: Some(props) },
        Loc::Subscribe => Pkt::Subscribe { ver: v, id: 1, props, entries: if alt { vec![(b"a/#".to_vec(), 0x2E), (b"b".to_vec(), 1)] } else { vec![(b"a".to_vec(), 0)] } },
        Loc::Suback => Pkt::Suback { ver: v, id: 1, props, codes: if alt { vec![0x80, 2] } else { vec![0] } },
        Loc::Unsubscribe => Pkt::Unsubscribe { ver: v, id: 1, props, entries: if alt { vec![b"a/#".to_vec(), b"b".to_vec()] } else { vec![b"a".to_vec()] } },
        Loc::Unsuback => Pkt::Unsuback { ver: v, id: 1, props, codes: if alt { vec![0x11, 0x80] } else { vec![0] } },
        Loc::Disconnect => Pkt::Disconnect { ver: v, code: Some(if alt { 0x8E } else { 0 }), props: Some(props) },
        Loc::Auth => {
            // reasons 0x18 / 0x19 (continue / re-authenticate) need a method; cells that test the method itself use Success
            Pkt::Auth { code: Some(if auth_has_method { if alt { 0x19 } else { 0x18 } } else { 0x00 }), props: Some(props) }
        }
    }
}

/// build the carrier through the public builders and parse its reference encoding; both verdicts against `want`
fn judge(rep: &mut Report, a: &Pkt, cell: &str, want: bool, attrs: &str, case: (u64, u64)) {
    rep.evaluations += 1;
    rep.distinct_case(cell.as_bytes());
    if want {
        rep.count("cells_expected_accept");
    } else {
        rep.count("cells_expected_reject");
    }
    // ---- builder path
    rep.hit("T1-builder-acceptance-equals-spec-table");
    let b = guard::call(|| bridge::to_lib::<u16>(a));
    let builder_accepts: Option<bool> = match &b {
        Err(pn) => {
            rep.violate(Violation { property: "C18".into(), rule: "panic".into(), signature: format!("C18.panic@path=builder;{}", attrs), what: format!("builder path panicked for {}: {}", cell, pn.message), witness: json!({"cell": cell}), case });
            None
        }
        Ok(Ok(_)) => Some(true),
        Ok(Err(BuildErr::Lib(_))) => Some(false),
        Ok(Err(BuildErr::Inexpressible(_))) => {
            rep.count("builder_cells_inexpressible");
            None
        }
    };
    if let Some(acc) = builder_accepts {
        if acc != want {
            rep.violate(Violation {
                property: "C18".into(),
                rule: "T1-builder-acceptance-equals-spec-table".into(),
                signature: format!("C18.T1-builder@{};accepts={}", attrs, acc),
                what: format!("builder {} {} but the specification table says {}", if acc { "accepts" } else { "rejects" }, cell, if want { "allowed" } else { "not allowed" }),
                witness: json!({"cell": cell, "packet": a, "builder_result": format!("{:?}", b.as_ref().map(|r| r.as_ref().map(|_| "ok").map_err(|e| format!("{:?}", e))).map_err(|p| p.message.clone()))}),
                case,
            });
        }
    }
    // ---- parser path
    rep.hit("T2-parser-acceptance-equals-spec-table");
    let frame = rc::encode(a, 2);
    let pr = guard::call(|| lib_parse_frame::<u16>(&frame, Ver::V5));
    let parser_accepts = match &pr {
        Err(pn) => {
            rep.violate(Violation { property: "C18".into(), rule: "panic".into(), signature: format!("C18.panic@path=parser;{}", attrs), what: format!("parser path panicked for {}: {}", cell, pn.message), witness: json!({"cell": cell}), case });
            None
        }
        Ok(Ok(_)) => Some(true),
        Ok(Err(_)) => Some(false),
    };
    if let Some(acc) = parser_accepts {
        if acc != want {
            rep.violate(Violation {
                property: "C18".into(),
                rule: "T2-parser-acceptance-equals-spec-table".into(),
                signature: format!("C18.T2-parser@{};accepts={}", attrs, acc),
                what: format!("parser {} {} but the specification table says {}", if acc { "accepts" } else { "rejects" }, cell, if want { "allowed" } else { "not allowed" }),
                witness: json!({"cell": cell, "packet": a, "frame_hex": frame.iter().map(|b| format!("{:02x}", b)).collect::<String>(), "parser_result": format!("{:?}", pr.as_ref().map(|r| r.as_ref().map(|_| "ok").map_err(|e| format!("{:?}", e))).map_err(|p| p.message.clone()))}),
                case,
            });
        }
    }
    if let (Some(b), Some(p)) = (builder_accepts, parser_accepts) {
        rep.hit("T3-builder-and-parser-agree");
        if b != p {
            rep.count("builder_parser_disagreements");
        }
    }
    if rep.samples.len() < 5 && (rep.evaluations % 211 == 0) {
        rep.sample(json!({"cell": cell, "expected_accept": want, "builder_accepts": builder_accepts, "parser_accepts": parser_accepts, "carrier": a.short()}), 5);
    }
}

/// Authentication Data needs an Authentication Method next to it (spec 3.1.2.11.10 / 3.15.2.2.3); an AUTH carrier
/// with reason 0x18 needs the method as well. Returns (props, auth_has_method).
pub(crate) fn with_auth_method(loc: Loc, mut props: Vec<Prop>) -> (Vec<Prop>, bool) {
    let has21 = props.iter().any(|p| p.id == 21);
    let has22 = props.iter().any(|p| p.id == 22);
    let mut auth_has_method = false;
    if matches!(loc, Loc::Auth) {
        if !has21 {
            props.insert(0, Prop { id: 21, val: PVal::Str(b"m".to_vec()) });
        }
        auth_has_method = props.iter().filter(|p| p.id == 21).count() == 1;
    } else if has22 && !has21 && matches!(loc, Loc::Connect | Loc::Connack) {
        props.insert(0, Prop { id: 21, val: PVal::Str(b"m".to_vec()) });
    }
    (props, auth_has_method)
}
/// the specification's verdict on a whole property list at a location
fn list_allowed(loc: Loc, props: &[Prop]) -> bool {
    for p in props {
        if !prop_allowed(p.id, loc) || !prop_value_ok(p) {
            return false;
        }
        if !prop_repeatable(p.id, loc) && props.iter().filter(|q| q.id == p.id).count() > 1 {
            return false;
        }
    }
    true
}

pub fn run(ctx: &Ctx) -> Report {
    let mut rep = Report::new(
        "exhaustive table: 27 property ids x 14 property-carrying locations (incl. will) x occurrence count {1,2} x value classes (legal, boundary, each forbidden value), each placed in a minimal valid carrier packet; plus every ordered pair of distinct property ids x 14 locations in the lists [A,B], [A,B,B], [B,A,B], [B,B,A] (a multiplicity or placement error must be found next to any other property), plus seeded random property lists of up to 6 entries; expected acceptance from MQTT 5.0 Table 2-4 (Appendix C of DESIGN.md); builder path and parser path both judged and compared with each other. distinct = distinct cells",
    );
    rep.exhaustive = true;
    let case = (1u64, 0u64);
    for (id, _, name) in PROP_TABLE.iter() {
        for loc in ALL_LOCS {
            for count in [1usize, 2] {
                for (vname, val) in value_cells(*id) {
                    if count == 2 && vname != "legal" {
                        continue;
                    }
                    let p = Prop { id: *id, val: val.clone() };
                    let props: Vec<Prop> = (0..count).map(|_| p.clone()).collect();
                    let want = prop_allowed(*id, loc) && (count == 1 || prop_repeatable(*id, loc)) && prop_value_ok(&p);
                    let (props, auth_has_method) = if *id == 21 { (props, false) } else { with_auth_method(loc, props) };
                    for variant in [0u8, 1] {
                        let a = carrier(loc, props.clone(), auth_has_method, variant);
                        let cell = format!("{}({}) in {:?} x{} value={} carrier={}", name, id, loc, count, vname, variant);
                        judge(&mut rep, &a, &cell, want, &format!("prop={};loc={:?};count={};value={}{}", id, loc, count, vname, if variant == 1 { ";carrier=alt" } else { "" }), case);
                    }
                }
            }
        }
    }
    // ---- many copies: "at most once" holds for 3, 255, 256, 257 and 1000 occurrences as it does for 2
    for (id, _, name) in PROP_TABLE.iter() {
        for loc in ALL_LOCS {
            if !prop_allowed(*id, loc) || *id == 21 || *id == 22 {
                continue;
            }
            for count in [3usize, 255, 256, 257, 1000] {
                let p = Prop { id: *id, val: legal_value(*id) };
                let list: Vec<Prop> = (0..count).map(|_| p.clone()).collect();
                let want = prop_repeatable(*id, loc);
                let (props, auth_has_method) = with_auth_method(loc, list);
                let a = carrier(loc, props, auth_has_method, (count % 2) as u8);
                let cell = format!("{}({}) in {:?} x{}", name, id, loc, count);
                rep.hit("T7-many-occurrences");
                judge(&mut rep, &a, &cell, want, &format!("prop={};loc={:?};count={}", id, loc, count), case);
            }
        }
    }
    // ---- pairs: the verdict on B (placement, multiplicity) must not depend on which other property stands next to it
    for (ia, _, na) in PROP_TABLE.iter() {
        for (ib, _, nb) in PROP_TABLE.iter() {
            if ia == ib {
                continue;
            }
            for loc in ALL_LOCS {
                // A is a legal companion at this location; B is the property under test
                if !prop_allowed(*ia, loc) {
                    continue;
                }
                // (the authentication pair has its own cross rule, handled by with_auth_method in the single cells)
                if matches!((*ia, *ib), (21, 22) | (22, 21)) {
                    continue;
                }
                let a = Prop { id: *ia, val: legal_value(*ia) };
                let b = Prop { id: *ib, val: legal_value(*ib) };
                let shapes: [(&str, Vec<Prop>); 5] = [
                    ("A,B", vec![a.clone(), b.clone()]),
                    ("B,A", vec![b.clone(), a.clone()]),
                    ("A,B,B", vec![a.clone(), b.clone(), b.clone()]),
                    ("B,A,B", vec![b.clone(), a.clone(), b.clone()]),
                    ("B,B,A", vec![b.clone(), b.clone(), a.clone()]),
                ];
                for (shape, list) in shapes {
                    let want = list_allowed(loc, &list);
                    let (props, auth_has_method) = with_auth_method(loc, list);
                    if props.iter().filter(|p| p.id == 21).count() > 1 && matches!(loc, Loc::Auth) {
                        // the carrier itself would be judged on its method; covered by the single cells
                        continue;
                    }
                    for variant in [0u8, 1] {
                        let pkt = carrier(loc, props.clone(), auth_has_method, variant);
                        let cell = format!("A={}({}) B={}({}) in {:?} list [{}] carrier={}", na, ia, nb, ib, loc, shape, variant);
                        rep.hit("T4-verdict-independent-of-neighbour-property");
                        judge(&mut rep, &pkt, &cell, want, &format!("pair;a={};b={};loc={:?};shape={}{}", ia, ib, loc, shape, if variant == 1 { ";carrier=alt" } else { "" }), case);
                    }
                }
            }
        }
    }
    // ---- the authentication pair: Authentication Data needs an Authentication Method in the same list, in any order and
    // with anything in between (property order is not significant)
    for loc in [Loc::Connect, Loc::Connack, Loc::Auth] {
        let m = Prop { id: 21, val: PVal::Str(b"m".to_vec()) };
        let dta = Prop { id: 22, val: PVal::Bin(b"d".to_vec()) };
        let u = Prop { id: 38, val: PVal::Pair(b"k".to_vec(), b"v".to_vec()) };
        // (Authentication Data WITHOUT a method is a cross-property rule C18 does not state: not judged)
        let lists: [(&str, Vec<Prop>, bool); 7] = [
            ("method,data", vec![m.clone(), dta.clone()], true),
            ("data,method", vec![dta.clone(), m.clone()], true),
            ("data,user,method", vec![dta.clone(), u.clone(), m.clone()], true),
            ("user,data,user,method,user", vec![u.clone(), dta.clone(), u.clone(), m.clone(), u.clone()], true),
            ("method,user,data", vec![m.clone(), u.clone(), dta.clone()], true),
            ("data,method,data", vec![dta.clone(), m.clone(), dta.clone()], false),
            ("method,data,method", vec![m.clone(), dta.clone(), m.clone()], false),
        ];
        for (shape, list, want) in lists {
            for variant in [0u8, 1] {
                let has_one_method = list.iter().filter(|p| p.id == 21).count() == 1;
                if matches!(loc, Loc::Auth) && !has_one_method {
                    // (an AUTH whose reason needs a method is judged on the method itself by the single cells)
                    continue;
                }
                let pkt = carrier(loc, list.clone(), has_one_method, variant);
                let cell = format!("authentication pair [{}] in {:?} carrier={}", shape, loc, variant);
                rep.hit("T6-authentication-pair-in-any-order");
                judge(&mut rep, &pkt, &cell, want, &format!("authpair;loc={:?};shape={}{}", loc, shape, if variant == 1 { ";carrier=alt" } else { "" }), case);
            }
        }
    }
    // ---- seeded random lists
    let n = ctx.budget(20_000, 2_000_000);
    let r2 = run_cases(ctx, 2, n, "random lists", |idx, seed, rep| {
        let mut rng = Rng::new(seed);
        let loc = ALL_LOCS[rng.usize(ALL_LOCS.len())];
        let allowed: Vec<u8> = PROP_TABLE.iter().map(|t| t.0).filter(|i| prop_allowed(*i, loc)).collect();
        let len = 1 + rng.usize(6);
        let mut list = Vec::new();
        for _ in 0..len {
            // mostly properties of this location, sometimes a stranger, sometimes a repeat of an earlier entry
            let id = if !list.is_empty() && rng.chance(1, 4) {
                let q: &Prop = &list[rng.usize(list.len())];
                q.id
            } else if !allowed.is_empty() && rng.chance(9, 10) {
                allowed[rng.usize(allowed.len())]
            } else {
                PROP_TABLE[rng.usize(PROP_TABLE.len())].0
            };
            let cells = value_cells(id);
            let val = if rng.chance(9, 10) { legal_value(id) } else { cells[rng.usize(cells.len())].1.clone() };
            list.push(Prop { id, val });
        }
        if list.iter().any(|p| p.id == 21 || p.id == 22) {
            // cross rule of the authentication pair: judged by the single cells
            return;
        }
        let want = list_allowed(loc, &list);
        let (props, auth_has_method) = with_auth_method(loc, list.clone());
        let variant = rng.below(2) as u8;
        let pkt = carrier(loc, props, auth_has_method, variant);
        let cell = format!("{:?} list {:?} carrier={}", loc, list.iter().map(|p| p.id).collect::<Vec<_>>(), variant);
        rep.hit("T5-random-list-verdict-equals-spec-table");
        let first_bad = list.iter().find(|p| !prop_allowed(p.id, loc) || !prop_value_ok(p) || (!prop_repeatable(p.id, loc) && list.iter().filter(|q| q.id == p.id).count() > 1)).map(|p| p.id).unwrap_or(0);
        judge(rep, &pkt, &cell, want, &format!("list;loc={:?};first_offender={};len={}", loc, first_bad, list.len()), (2, idx));
    });
    rep.merge(r2);
    rep.assumptions.push("the acceptance table (Appendix C of DESIGN.md) is my transcription of MQTT 5.0 Table 2-4 and of the per-property value rules".into());
    rep.assumptions.push("builder cells whose value cannot be expressed through the public constructors (e.g. PayloadFormatIndicator takes an enum) are counted as inexpressible, not judged".into());
    if ctx.replay.is_none() {
        rep.require_hits(&[("T1-builder-acceptance-equals-spec-table", 700), ("T2-parser-acceptance-equals-spec-table", 700), ("T4-verdict-independent-of-neighbour-property", 5_000), ("T5-random-list-verdict-equals-spec-table", 1_000)]);
    }
    rep
}
