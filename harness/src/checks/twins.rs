//! Differential twins (DESIGN §3.5): C09 (chunking), C10 (reuse vs fresh object), C16 (export/restore).

use crate::apkt::*;
use crate::conn::*;
use crate::driver::*;
use crate::guard;
use crate::model::{Model, Owner, St};
use crate::refcodec as rc;
use crate::report::{run_cases, Ctx, Report, Violation};
use crate::rng::Rng;
use mqtt_protocol_core::mqtt::common::Cursor;
use mqtt_protocol_core::mqtt::connection::{PacketBuildResult, PacketBuilder};
use serde_json::json;
use std::collections::BTreeSet;

fn viol(prop: &str, rule: &str, attrs: &str, what: String, witness: serde_json::Value, case: (u64, u64)) -> Violation {
    Violation { property: prop.into(), rule: rule.into(), signature: if attrs.is_empty() { format!("{}.{}", prop, rule) } else { format!("{}.{}@{}", prop, rule, attrs) }, what, witness, case }
}
fn first_diff(a: &[String], b: &[String]) -> usize {
    a.iter().zip(b.iter()).position(|(x, y)| x != y).unwrap_or(a.len().min(b.len()))
}

// ------------------------------------------------------------------------------------------------
// C09

fn frames_for_cuts(idw: usize, ver: Ver) -> Vec<Vec<u8>> {
    let mut v: Vec<Pkt> = vec![
        Pkt::Publish { ver, dup: false, qos: 0, retain: false, topic: b"a".to_vec(), id: None, props: vec![], payload: b"xy".to_vec() },
        Pkt::Publish { ver, dup: false, qos: 1, retain: false, topic: b"b".to_vec(), id: Some(1), props: vec![], payload: vec![] },
        Pkt::Publish { ver, dup: false, qos: 2, retain: true, topic: b"c/d".to_vec(), id: Some(2), props: vec![], payload: b"z".to_vec() },
        Pkt::Ack { ver, kind: AckKind::Pubrel, id: 2, code: None, props: None },
        Pkt::Ack { ver, kind: AckKind::Puback, id: 9, code: None, props: None },
        Pkt::Pingresp { ver },
        Pkt::Pingreq { ver },
        Pkt::Suback { ver, id: 3, props: vec![], codes: vec![0] },
        Pkt::Subscribe { ver, id: 4, props: vec![], entries: vec![(b"t".to_vec(), 1)] },
        Pkt::Disconnect { ver, code: None, props: None },
    ];
    if ver == Ver::V5 {
        v.push(Pkt::Publish { ver, dup: false, qos: 0, retain: false, topic: b"a".to_vec(), id: None, props: vec![p_u16(P_TA, 1)], payload: vec![] });
        v.push(Pkt::Auth { code: None, props: None });
    }
    let mut out: Vec<Vec<u8>> = v.iter().map(|p| rc::encode(p, idw)).collect();
    out.push(vec![0x30, 0x80, 0x80, 0x80, 0x80, 0x01]); // over-long remaining length
    out.push(vec![0x00, 0x00]); // type 0
    out.push(vec![0x30, 0x01, 0x00]); // truncated publish body (invalid packet)
    out
}

fn connected(role: Role, idw: usize, ver: Ver, as_client: bool) -> Box<dyn Conn> {
    let mut c = new_conn(role, idw, LVer::from_ver(ver));
    let _ = c.set_opt(Opt::AutoPubResponse, true);
    let connect = Pkt::Connect { ver, clean: true, keep_alive: 10, client_id: b"c".to_vec(), will: None, user: None, pass: None, props: if ver == Ver::V5 { vec![p_u16(P_TAM, 2)] } else { vec![] } };
    let connack = Pkt::Connack { ver, sp: false, code: 0, props: if ver == Ver::V5 { vec![p_u16(P_TAM, 2)] } else { vec![] } };
    if as_client {
        let _ = c.send(&connect, Via::Dynamic);
        let _ = c.recv(&rc::encode(&connack, idw));
    } else {
        let _ = c.recv(&rc::encode(&connect, idw));
        let _ = c.send(&connack, Via::Dynamic);
    }
    c
}

/// feed `stream` in the given chunks; returns (normalised events, per-call max frames consumed ok?)
fn feed_chunks(c: &mut Box<dyn Conn>, stream: &[u8], bounds: &[usize]) -> Result<(Vec<Ev>, Option<String>), String> {
    let mut all = Vec::new();
    let mut start = 0;
    let mut consumed_total = 0usize;
    let mut problem = None;
    for &end in bounds.iter().chain(std::iter::once(&stream.len())) {
        if end < start {
            continue;
        }
        if end == start {
            // an empty receive buffer (a transport read that returned nothing) between two pieces: part of "any way of
            // cutting the stream into successive receive buffers"; it consumes nothing and yields nothing
            let (evs, n) = c.recv(&[]).map_err(|p| format!("panic: {}", p.message))?;
            if n != 0 && problem.is_none() {
                problem = Some(format!("an empty buffer at offset {} was reported as {} bytes consumed", start, n));
            }
            all.extend(evs);
            continue;
        }
        let chunk = &stream[start..end];
        let mut off = 0;
        let mut iter = 0;
        while off < chunk.len() {
            iter += 1;
            let (evs, n) = c.recv(&chunk[off..]).map_err(|p| format!("panic: {}", p.message))?;
            if (n == 0 && evs.is_empty()) || iter > chunk.len() + 4 {
                return Err("recv made no progress".into());
            }
            // at most one packet per call: the call must not run past the end of the frame it started in
            let abs_before = consumed_total;
            let abs_after = consumed_total + n;
            let mut pos = 0;
            // find frame boundaries of the stream
            loop {
                let step = match rc::frame_at(&stream[pos..]) {
                    rc::Framed::Frame { total, .. } => total,
                    rc::Framed::OverlongLength { at } => at,
                    rc::Framed::Partial => stream.len() - pos,
                };
                let fend = pos + step;
                if abs_before >= pos && abs_before < fend {
                    if abs_after > fend && problem.is_none() {
                        problem = Some(format!("a call starting at offset {} (frame {}..{}) consumed up to {}", abs_before, pos, fend, abs_after));
                    }
                    break;
                }
                pos = fend;
                if pos >= stream.len() {
                    break;
                }
            }
            consumed_total = abs_after;
            off += n;
            all.extend(evs);
        }
        start = end;
    }
    Ok((normalise(&all), problem))
}

fn frame_bounds(stream: &[u8]) -> Vec<usize> {
    let mut b = Vec::new();
    let mut pos = 0;
    while pos < stream.len() {
        let step = match rc::frame_at(&stream[pos..]) {
            rc::Framed::Frame { total, .. } => total,
            rc::Framed::OverlongLength { at } => at,
            rc::Framed::Partial => stream.len() - pos,
        };
        pos += step;
        b.push(pos);
    }
    b
}

fn exhaustive_two_cuts(rep: &mut Report, role: Role, idw: usize, ver: Ver, as_client: bool, case: (u64, u64)) {
    let frames = frames_for_cuts(idw, ver);
    for f1 in frames.iter() {
        for f2 in frames.iter() {
            let mut stream = f1.clone();
            stream.extend_from_slice(f2);
            if stream.len() > 26 {
                continue;
            }
            let mut a = connected(role, idw, ver, as_client);
            let whole = match feed_chunks(&mut a, &stream, &frame_bounds(&stream)) {
                Ok((e, _)) => e,
                Err(m) => {
                    rep.violate(viol("C09", "panic-or-wedge", "mode=whole-frames", format!("{:?} {:?}: stream {} fed frame by frame: {}", role, ver, crate::model::hexs(&stream), m), json!({}), case));
                    continue;
                }
            };
            for i in 1..stream.len() {
                for j in i..stream.len() {
                    let mut b = connected(role, idw, ver, as_client);
                    rep.evaluations += 1;
                    rep.hit("B1-events-independent-of-chunking");
                    match feed_chunks(&mut b, &stream, &[i, j]) {
                        Err(m) => {
                            rep.violate(viol("C09", "panic-or-wedge", "mode=two-cuts", format!("stream {} cut at {},{}: {}", crate::model::hexs(&stream), i, j, m), json!({}), case));
                        }
                        Ok((evs, problem)) => {
                            if let Some(p) = problem {
                                rep.violate(viol("C09", "B2-at-most-one-packet-per-call", "", format!("stream {} cut at {},{}: {}", crate::model::hexs(&stream), i, j, p), json!({}), case));
                            }
                            if evs != whole {
                                rep.violate(viol(
                                    "C09",
                                    "B1-events-independent-of-chunking",
                                    "where=two-cuts",
                                    format!("{:?} {:?} stream {} cut at {},{} yields {} but frame by frame {}", role, ver, crate::model::hexs(&stream), i, j, evs_short(&evs), evs_short(&whole)),
                                    json!({"stream_hex": crate::model::hexs(&stream), "cuts": [i, j]}),
                                    case,
                                ));
                            }
                        }
                    }
                }
            }
            rep.distinct_case(&stream);
        }
    }
}

/// PacketBuilder::feed directly: reassembled bytes equal the frame
fn packet_builder_direct(seed: u64, rep: &mut Report, case: (u64, u64)) {
    let mut r = Rng::new(seed);
    let cfg = crate::gen::GenCfg { big_pm: 30, huge_pm: 0, idw: 2 };
    let kinds = crate::gen::all_kind_versions();
    let mut stream = Vec::new();
    let mut frames: Vec<Vec<u8>> = Vec::new();
    for _ in 0..1 + r.usize(5) {
        let (k, v) = *r.pick(&kinds);
        let f = match r.below(8) {
            0 => {
                // body of exactly 0,1,127,128,16383,16384 bytes
                let n = *r.pick(&[0usize, 1, 127, 128, 16383, 16384]);
                let mut f = vec![0x30 | (r.below(16) as u8)];
                rc::vbi_encode(n as u32, &mut f);
                f.extend(std::iter::repeat(0x41).take(n));
                f
            }
            _ => rc::encode(&crate::gen::gen_packet(&mut r, &cfg, k, v), 2),
        };
        stream.extend_from_slice(&f);
        frames.push(f);
    }
    let mut pb = PacketBuilder::new();
    let mut got: Vec<Vec<u8>> = Vec::new();
    let mut pos = 0;
    rep.evaluations += 1;
    rep.hit("B3-reassembled-bytes-equal-frames");
    while pos < stream.len() {
        let len = match r.below(5) {
            0 => 1,
            1 => stream.len() - pos,
            _ => 1 + r.usize((stream.len() - pos).min(40)),
        };
        let chunk = &stream[pos..pos + len];
        let mut cur = Cursor::new(chunk);
        loop {
            let before = cur.position();
            let res = guard::call(|| pb.feed(&mut cur));
            match res {
                Err(p) => {
                    rep.violate(viol("C09", "panic-or-wedge", "where=PacketBuilder", p.message, json!({}), case));
                    return;
                }
                Ok(PacketBuildResult::Complete(raw)) => {
                    let mut f = vec![(raw.packet_type() << 4) | raw.flags()];
                    rc::vbi_encode(raw.remaining_length(), &mut f);
                    f.extend_from_slice(raw.data_as_slice());
                    got.push(f);
                }
                Ok(PacketBuildResult::Incomplete) => {
                    if cur.position() == before || cur.position() as usize >= chunk.len() {
                        break;
                    }
                }
                Ok(PacketBuildResult::Error(_)) => {
                    rep.violate(viol("C09", "B3-reassembled-bytes-equal-frames", "why=error-on-valid-stream", format!("PacketBuilder reported an error on a stream of valid frames {}", crate::model::hexs(&stream)), json!({}), case));
                    return;
                }
            }
            if cur.position() as usize >= chunk.len() {
                break;
            }
        }
        pos += len;
    }
    if got != frames {
        rep.violate(viol("C09", "B3-reassembled-bytes-equal-frames", "", format!("reassembled {} frames {:?} from a stream of {} frames", got.len(), got.iter().map(|f| crate::model::hexs(f)).collect::<Vec<_>>(), frames.len()), json!({"stream_hex": crate::model::hexs(&stream)}), case));
    }
    rep.distinct_case(&stream[..stream.len().min(64)]);
}

pub fn run_c09(ctx: &Ctx) -> Report {
    let rule = "twin objects with identical histories except for the partition of the fed byte stream: A receives exactly one whole frame per recv buffer, B an arbitrary partition (single bytes, frame-straddling pieces, several frames per buffer; streams of valid, invalid, mutated and over-long-length frames) - operation-level normalised event traces must be equal; cursor accounting (no call crosses a frame end, partial frames yield nothing, over-long Remaining Length reported at its fifth byte); exhaustive 2-cut enumeration of all pairs of short frames; PacketBuilder::feed reassembly compared byte for byte. distinct = distinct twin histories / streams";
    let n = ctx.budget(250_000, 10_000_000);
    let mut total = run_cases(ctx, 1, n, rule, |i, seed, rep| {
        let mut r = Rng::new(seed ^ 0x09);
        let fo = *r.pick(&[Focus::General, Focus::Hostile, Focus::Qos2In, Focus::Store]);
        let sc = random_scenario(&mut r, fo, 20);
        let mut a = Driver::new(sc.clone(), seed);
        a.chunk_mode = ChunkMode::WholeFrames;
        a.multi_frame_pct = 30;
        let mut b = Driver::new(sc.clone(), seed);
        b.chunk_mode = ChunkMode::Random;
        b.multi_frame_pct = 30;
        let oa = a.run();
        let ob = b.run();
        rep.evaluations += 1;
        rep.api_calls += oa.api_calls + ob.api_calls;
        rep.hit("B1-events-independent-of-chunking");
        for (k, v) in ob.hits.iter() {
            if k.starts_with('X') {
                rep.hit_n(k, *v);
            }
        }
        if ob.nontrivial {
            rep.distinct_hash(ob.shape);
        }
        for f in ob.found.iter().chain(oa.found.iter()) {
            if f.property == "C09" {
                rep.violate(viol("C09", f.rule, &f.attrs, f.what.clone(), json!({"scenario": scenario_json(&sc), "history": trace_json(&ob.trace)}), (1, i)));
                return;
            }
        }
        // a finding of another property ends a history early in both twins at the same operation
        if oa.op_trace != ob.op_trace {
            let k = first_diff(&oa.op_trace, &ob.op_trace);
            rep.violate(viol(
                "C09",
                "B1-events-independent-of-chunking",
                "where=driver-twin",
                format!("operation {}: one frame per buffer `{}` / arbitrary chunks `{}`", k, oa.op_trace.get(k).cloned().unwrap_or_default(), ob.op_trace.get(k).cloned().unwrap_or_default()),
                json!({"scenario": scenario_json(&sc), "whole_frames": oa.op_trace, "chunked_calls": trace_json(&ob.trace)}),
                (1, i),
            ));
        }
        if i % 9973 == 5 {
            rep.sample(json!({"scenario": scenario_json(&sc), "chunked_calls": trace_json(&ob.trace)}), 3);
        }
    });
    // exhaustive two-cut enumeration
    let combos: Vec<(Role, usize, Ver, bool)> = vec![(Role::Client, 2, Ver::V5, true), (Role::Server, 2, Ver::V311, false), (Role::Any, 4, Ver::V5, false), (Role::Client, 2, Ver::V311, true)];
    let combos_ref = &combos;
    let r2 = run_cases(ctx, 2, combos.len() as u64, "", |i, _s, rep| {
        let (role, idw, ver, asc) = combos_ref[i as usize];
        exhaustive_two_cuts(rep, role, idw, ver, asc, (2, i));
    });
    total.merge(r2);
    let r3 = run_cases(ctx, 3, ctx.budget(40_000, 2_000_000), "", |i, seed, rep| packet_builder_direct(seed, rep, (3, i)));
    total.merge(r3);
    if ctx.replay.is_none() {
        total.require_hits(&[("B1-events-independent-of-chunking", 50_000), ("B3-reassembled-bytes-equal-frames", 1_000), ("X7-overlong-remaining-length-is-an-error", 50)]);
    }
    total
}

// ------------------------------------------------------------------------------------------------
// C10

#[derive(Clone, Debug)]
enum SOp {
    Handshake { connect: Pkt, connack: Pkt },
    /// the two halves of a handshake, so that the application can act in between (a server may publish before its CONNACK)
    HandshakeConnect { connect: Pkt },
    HandshakeConnack { connack: Pkt },
    Publish { qos: u8, topic: &'static str, alias: Option<u16>, empty_topic: bool, payload: usize },
    PeerPublish { qos: u8, id: u32, topic: &'static str, alias: Option<u16>, empty_topic: bool },
    PeerAck { kind: AckKind, id: u32 },
    PeerPubrel { id: u32 },
    Subscribe,
    Ping,
    Acquire,
    Probe,
    Close,
    /// between the connections: a QoS>0 PUBLISH that names its topic only by an alias. No binding of the last
    /// connection may be usable any more, so a reused object refuses it exactly as a fresh one does
    BetweenAliasOnlyPublish { qos: u8, alias: u16 },
}

fn gen_script(r: &mut Rng, ver: Ver, as_client: bool, new_session_by_clean: bool, resume: bool) -> Vec<SOp> {
    let mut props_c = Vec::new();
    let mut props_a = Vec::new();
    if ver == Ver::V5 {
        for (props, is_ack) in [(&mut props_c, false), (&mut props_a, true)] {
            if r.bool() {
                props.push(p_u16(P_RM, *r.pick(&[1u16, 2, 5])));
            }
            if r.bool() {
                props.push(p_u16(P_TAM, *r.pick(&[0u16, 1, 3])));
            }
            if r.below(3) == 0 {
                // (large enough for the handshake packets themselves)
                props.push(p_u32(P_MPS, *r.pick(&[40u32, 60, 100])));
            }
            if resume || r.bool() {
                props.push(p_u32(P_SEI, 50));
            }
            if is_ack && r.below(3) == 0 {
                props.push(p_u16(P_SKA, *r.pick(&[0u16, 3])));
            }
        }
        if !resume {
            props_a.retain(|p| p.id != P_SEI);
        }
    }
    let clean = if resume { false } else { new_session_by_clean };
    let connect = Pkt::Connect { ver, clean, keep_alive: *r.pick(&[0u16, 0, 4]), client_id: b"c".to_vec(), will: None, user: None, pass: None, props: props_c };
    // session present only when resuming; "session not present" starts a new session
    let connack = Pkt::Connack { ver, sp: resume, code: 0, props: props_a };
    let _ = as_client;
    let mut v = Vec::new();
    if ver == Ver::V5 && r.below(3) == 0 {
        for _ in 0..1 + r.usize(2) {
            v.push(SOp::BetweenAliasOnlyPublish { qos: 1 + r.below(2) as u8, alias: r.range(1, 3) as u16 });
        }
    }
    let topics = ["a", "b", "c/d"];
    // (when the new session only begins with the CONNACK - "session not present" - the old session legitimately
    // lives on between CONNECT and CONNACK: nothing to compare there)
    if r.below(3) == 0 && (new_session_by_clean || resume) {
        v.push(SOp::HandshakeConnect { connect });
        for _ in 0..1 + r.usize(3) {
            if r.below(3) == 0 {
                v.push(SOp::Probe);
            } else {
                v.push(SOp::Publish { qos: 1 + r.below(2) as u8, topic: *r.pick(&topics), alias: None, empty_topic: false, payload: 1 });
            }
        }
        v.push(SOp::Probe);
        v.push(SOp::HandshakeConnack { connack });
    } else {
        v.push(SOp::Handshake { connect, connack });
    }
    v.push(SOp::Probe);
    for _ in 0..5 + r.usize(16) {
        v.push(match r.below(12) {
            0..=2 => {
                let alias = if ver == Ver::V5 && r.bool() { Some(r.range(1, 3) as u16) } else { None };
                SOp::Publish { qos: r.below(3) as u8, topic: *r.pick(&topics), alias, empty_topic: alias.is_some() && r.below(3) == 0, payload: *r.pick(&[0usize, 2, 30]) }
            }
            3..=4 => {
                let alias = if ver == Ver::V5 && r.bool() { Some(r.range(1, 3) as u16) } else { None };
                SOp::PeerPublish { qos: r.below(3) as u8, id: r.range(1, 4) as u32, topic: *r.pick(&topics), alias, empty_topic: alias.is_some() && r.below(3) == 0 }
            }
            5..=6 => SOp::PeerAck { kind: *r.pick(&[AckKind::Puback, AckKind::Pubrec, AckKind::Pubcomp]), id: r.range(1, 5) as u32 },
            7 => SOp::PeerPubrel { id: r.range(1, 4) as u32 },
            8 => SOp::Subscribe,
            9 => SOp::Ping,
            10 => SOp::Acquire,
            _ => SOp::Probe,
        });
    }
    v.push(SOp::Probe);
    v.push(SOp::Close);
    v
}

/// run the script on one object; returns one normalised line per step
fn run_script(c: &mut Box<dyn Conn>, script: &[SOp], ver: Ver, idw: usize, as_client: bool) -> Result<Vec<String>, String> {
    let mut out = Vec::new();
    let mut held: Vec<u32> = Vec::new();
    let feed = |c: &mut Box<dyn Conn>, p: &Pkt| -> Result<Vec<Ev>, String> {
        let b = rc::encode(p, idw);
        let mut all = Vec::new();
        let mut off = 0;
        let mut it = 0;
        while off < b.len() {
            it += 1;
            let (e, n) = c.recv(&b[off..]).map_err(|p| format!("panic in recv: {}", p.message))?;
            if (n == 0 && e.is_empty()) || it > b.len() + 4 {
                return Err("recv made no progress".into());
            }
            off += n;
            all.extend(e);
        }
        Ok(all)
    };
    let send = |c: &mut Box<dyn Conn>, p: &Pkt| -> Result<Vec<Ev>, String> {
        match c.send(p, Via::Dynamic).map_err(|p| format!("panic in send: {}", p.message))? {
            SendOutcome::Events(e) => Ok(e),
            _ => Ok(vec![]),
        }
    };
    for op in script {
        let line = match op {
            SOp::Handshake { connect, connack } => {
                let (e1, e2) = if as_client { (send(c, connect)?, feed(c, connack)?) } else { (feed(c, connect)?, send(c, connack)?) };
                format!("handshake => {} ; {}", evs_short(&normalise(&e1)), evs_short(&normalise(&e2)))
            }
            SOp::HandshakeConnect { connect } => {
                let e1 = if as_client { send(c, connect)? } else { feed(c, connect)? };
                format!("handshake(1) => {}", evs_short(&normalise(&e1)))
            }
            SOp::HandshakeConnack { connack } => {
                let e2 = if as_client { feed(c, connack)? } else { send(c, connack)? };
                format!("handshake(2) => {}", evs_short(&normalise(&e2)))
            }
            SOp::Publish { qos, topic, alias, empty_topic, payload } => {
                let id = if *qos > 0 {
                    match held.pop() {
                        Some(i) => Some(i),
                        None => c.acquire().map_err(|p| p.message)?.ok(),
                    }
                } else {
                    None
                };
                if *qos > 0 && id.is_none() {
                    "publish: no id".to_string()
                } else {
                    let p = Pkt::Publish { ver, dup: false, qos: *qos, retain: false, topic: if *empty_topic { vec![] } else { topic.as_bytes().to_vec() }, id, props: alias.map(|a| vec![p_u16(P_TA, a)]).unwrap_or_default(), payload: vec![b'p'; *payload] };
                    format!("send({}) => {}", p.short(), evs_short(&normalise(&send(c, &p)?)))
                }
            }
            SOp::PeerPublish { qos, id, topic, alias, empty_topic } => {
                let p = Pkt::Publish { ver, dup: false, qos: *qos, retain: false, topic: if *empty_topic { vec![] } else { topic.as_bytes().to_vec() }, id: if *qos > 0 { Some(*id) } else { None }, props: alias.map(|a| vec![p_u16(P_TA, a)]).unwrap_or_default(), payload: b"q".to_vec() };
                format!("recv({}) => {}", p.short(), evs_short(&normalise(&feed(c, &p)?)))
            }
            SOp::PeerAck { kind, id } => {
                let p = Pkt::Ack { ver, kind: *kind, id: *id, code: None, props: None };
                format!("recv({}) => {}", p.short(), evs_short(&normalise(&feed(c, &p)?)))
            }
            SOp::PeerPubrel { id } => {
                let p = Pkt::Ack { ver, kind: AckKind::Pubrel, id: *id, code: None, props: None };
                format!("recv({}) => {}", p.short(), evs_short(&normalise(&feed(c, &p)?)))
            }
            SOp::Subscribe => {
                if as_client {
                    match c.acquire().map_err(|p| p.message)?.ok() {
                        Some(id) => {
                            let p = Pkt::Subscribe { ver, id, props: vec![], entries: vec![(b"a".to_vec(), 0)] };
                            format!("send({}) => {}", p.short(), evs_short(&normalise(&send(c, &p)?)))
                        }
                        None => "subscribe: no id".into(),
                    }
                } else {
                    let p = Pkt::Subscribe { ver, id: 6, props: vec![], entries: vec![(b"a".to_vec(), 0)] };
                    format!("recv({}) => {}", p.short(), evs_short(&normalise(&feed(c, &p)?)))
                }
            }
            SOp::Ping => {
                let p = Pkt::Pingreq { ver };
                let e = if as_client { send(c, &p)? } else { feed(c, &p)? };
                format!("pingreq => {}", evs_short(&normalise(&e)))
            }
            SOp::Acquire => {
                let a = c.acquire().map_err(|p| p.message)?;
                if let Ok(i) = &a {
                    held.push(*i);
                }
                format!("acquire => {:?}", a)
            }
            SOp::Probe => {
                let st: Vec<String> = c.stored().map_err(|p| p.message)?.iter().map(|p| p.short()).collect();
                format!("probe => stored {:?} handled {:?} vacancy {:?}", st, c.handled().map_err(|p| p.message)?, c.vacancy().map_err(|p| p.message)?)
            }
            SOp::Close => format!("notify_closed => {}", evs_short(&normalise(&c.notify_closed().map_err(|p| p.message)?))),
            SOp::BetweenAliasOnlyPublish { qos, alias } => {
                // (which id acquire hands out before the new session starts depends on the old session: not compared)
                match c.acquire().map_err(|p| p.message)?.ok() {
                    None => "between connections: no id".to_string(),
                    Some(id) => {
                        let p = Pkt::Publish { ver, dup: false, qos: *qos, retain: false, topic: vec![], id: Some(id), props: vec![p_u16(P_TA, *alias)], payload: b"o".to_vec() };
                        let evs = send(c, &p)?;
                        let shown: Vec<String> = evs
                            .iter()
                            .map(|e| match e {
                                Ev::Released(i) if *i == id => "Released(own id)".to_string(),
                                other => other.short(),
                            })
                            .collect();
                        if !evs.iter().any(|e| matches!(e, Ev::Released(i) if *i == id)) {
                            let _ = c.release(id);
                        }
                        format!("between connections: send(alias-only PUBLISH q{} alias {}) => {:?}", qos, alias, shown)
                    }
                }
            }
        };
        out.push(line);
    }
    Ok(out)
}

fn digest_diff(a: &Option<String>, b: &Option<String>) -> String {
    match (a, b) {
        (Some(a), Some(b)) if a != b => {
            let fa: Vec<&str> = a.split(", ").collect();
            let fb: Vec<&str> = b.split(", ").collect();
            let d: Vec<String> = fa.iter().zip(fb.iter()).filter(|(x, y)| x != y).take(4).map(|(x, y)| format!("{} <> {}", x, y)).collect();
            format!("state fields that differ (reused <> fresh): {}", d.join(" | "))
        }
        _ => String::new(),
    }
}

pub fn run_c10(ctx: &Ctx) -> Report {
    let rule = "first-connection histories H from the generic driver (any focus, hostile traffic, any negotiated limits, every close path incl. mid-frame loss) on object X; then a seeded second-connection script S (handshake with different limits, publishes with aliases, peer publishes/acks/pubrel, subscribe, ping, acquire, public probes, close) is run on X and on a fresh object Y with the same options - for a NEW session (clean start, or session not present) traces must be equal; for a RESUMED session Y is first given X's exported session (restore_packets, restore_qos2_publish_handled, application-held ids re-registered). distinct = distinct (H shape, script) pairs with a non-trivial H";
    let n = ctx.budget(150_000, 8_000_000);
    let known = super::connmon::known_signatures();
    let mut total = run_cases(ctx, 1, n, rule, |i, seed, rep| {
        let mut r = Rng::new(seed ^ 0x10);
        let fo = *r.pick(&[Focus::General, Focus::Hostile, Focus::Store, Focus::Qos2In, Focus::Timers, Focus::Alias, Focus::Flow]);
        let mut sc = random_scenario(&mut r, fo, 12);
        sc.max_ops = 6 + r.usize(40);
        let mut x = Driver::new(sc.clone(), seed);
        x.known = known.clone();
        x.do_setup();
        x.run_steps(sc.max_ops);
        rep.evaluations += 1;
        rep.api_calls += x.api_calls;
        if x.dead || !x.sink.found.is_empty() || x.model.lost {
            rep.count("H_abandoned(finding of another property or out-of-domain)");
            return;
        }
        // end H by a close if the connection got anywhere (a half-received frame may be pending: that is the point)
        let mid_frame = !x.model.pending.is_empty();
        if r.below(4) == 0 && x.model.status == St::Cd {
            // transport lost in the middle of a frame
            let junk = [0x32u8, 0x0a, 0x00, 0x01];
            let _ = x.conn.recv(&junk);
            rep.count("H_ended_mid_frame");
        } else if mid_frame {
            rep.count("H_ended_mid_frame");
        }
        let ev = x.conn.notify_closed();
        if ev.is_err() {
            return;
        }
        rep.count(&format!("H_final_status[{:?}]", x.model.status));
        let Some(ver) = x.model.ver.or(sc.ver.to_ver()) else { return };
        let mode = r.below(3); // 0 clean start, 1 session not present, 2 resume
        // "session not present" can only be said to a client (CONNACK); a server decides by itself
        let mode = if mode == 1 && !sc.as_client { 0 } else { mode };
        let resume = mode == 2;
        let script = gen_script(&mut r, ver, sc.as_client, mode == 0, resume);
        // fresh object with the same options
        let mut y = Driver::new(Scenario { ver: LVer::from_ver(ver), ..sc.clone() }, seed);
        let m: Model = x.model.clone();
        y.apply_options(&m);
        let mut xc = x.conn;
        let mut yc = y.conn;
        if resume {
            let st = xc.stored().unwrap_or_default();
            let hd = xc.handled().unwrap_or_default();
            let _ = yc.restore_packets(&st);
            let _ = yc.restore_handled(&hd);
            let stored_ids: BTreeSet<u32> = st.iter().filter_map(|p| p.id()).collect();
            // ids in use on X that are not in the export (application-held, or mid-exchange) are re-registered
            let ids: Vec<u32> = m.known_ids.iter().copied().collect();
            if let Some(in_use) = xc.in_use_hook(&ids) {
                for id in in_use {
                    if !stored_ids.contains(&id) {
                        let _ = yc.register(id);
                    }
                }
            } else {
                for (id, o) in m.owner.iter() {
                    if *o == Owner::App && m.in_use.contains(id) && !stored_ids.contains(id) {
                        let _ = yc.register(*id);
                    }
                }
            }
            // exchanges past PUBREC (awaiting PUBCOMP) are part of the in-memory session of X only: the export
            // does not carry them; a script that acknowledges them would see a legitimate difference
            if m.owner.iter().any(|(id, o)| matches!(o, Owner::RelPending | Owner::PubComp) && !st.iter().any(|p| matches!(p, Pkt::Ack { id: i, .. } if i == id))) {
                rep.count("resume_case_skipped(exchange awaiting PUBCOMP not part of the export)");
                return;
            }
        }
        rep.hit(if resume { "L2-resumed-session-equals-restored-fresh-object" } else { "L1-new-session-equals-fresh-object" });
        let tx = run_script(&mut xc, &script, ver, sc.idw, sc.as_client);
        let ty = run_script(&mut yc, &script, ver, sc.idw, sc.as_client);
        rep.api_calls += 2 * script.len() as u64;
        let mode_name = ["clean start", "session not present", "resume"][mode as usize];
        let witness = |tx: &Vec<String>, ty: &Vec<String>| json!({"scenario": scenario_json(&sc), "first_connection": trace_json(&x.trace), "second_connection_mode": mode_name, "reused_object": tx, "fresh_object": ty});
        match (tx, ty) {
            (Ok(tx), Ok(ty)) if tx.first().map(|l| l.contains("Error(")).unwrap_or(true) && tx.first() == ty.first() => {
                // the scripted handshake was refused identically on both: no second connection to compare
                rep.count("second_handshake_refused_on_both");
            }
            (Ok(tx), Ok(ty)) => {
                if x.nontrivial {
                    rep.distinct_hash(x.shape ^ crate::rng::fnv(format!("{:?}", script).as_bytes()));
                }
                if tx != ty {
                    let k = first_diff(&tx, &ty);
                    let dd = digest_diff(&xc.digest(), &yc.digest());
                    // classify by what kind of event differs first
                    let what_kind = tx.get(k).map(|l| l.split(" => ").next().unwrap_or("").split('(').next().unwrap_or("").to_string()).unwrap_or_default();
                    rep.violate(viol(
                        "C10",
                        if resume { "L2-resumed-session-equals-restored-fresh-object" } else { "L1-new-session-equals-fresh-object" },
                        &format!("mode={};first_diff_at={};client_path={}", ["clean", "session-not-present", "resume"][mode as usize], what_kind, sc.as_client),
                        format!("second connection step {}: reused object `{}` / fresh object `{}`. {}", k, tx.get(k).cloned().unwrap_or_default(), ty.get(k).cloned().unwrap_or_default(), dd),
                        witness(&tx, &ty),
                        (1, i),
                    ));
                }
                if i % 9973 == 7 {
                    rep.sample(json!({"first_connection": trace_json(&x.trace), "second_connection": tx}), 3);
                }
            }
            (Err(e), _) => rep.violate(viol("C10", "panic-or-wedge", "object=reused", format!("second connection on the reused object: {}", e), json!({"scenario": scenario_json(&sc), "first_connection": trace_json(&x.trace), "script": format!("{:?}", script)}), (1, i))),
            (_, Err(e)) => rep.violate(viol("C10", "panic-or-wedge", "object=fresh", format!("second connection on the fresh object: {}", e), json!({"script": format!("{:?}", script)}), (1, i))),
        }
    });
    total.assumptions.push("options (set_*) are configuration scope and are replayed on the fresh object; an Undetermined server keeps the version it adopted (C17)".into());
    if ctx.replay.is_none() {
        total.require_hits(&[("L1-new-session-equals-fresh-object", 10_000), ("L2-resumed-session-equals-restored-fresh-object", 5_000)]);
    }
    total
}

// ------------------------------------------------------------------------------------------------
// C16

pub fn run_c16(ctx: &Ctx) -> Report {
    let rule = "histories from the store / inbound-QoS2 drivers under persistent sessions; at a crash point (quick: one random prefix per history; thorough: several) the session is exported (get_stored_packets, get_qos2_publish_handled), the original X loses its transport, a fresh object Z gets exactly the export; both reconnect with session present and the same peer continuation (acknowledgements for every exported packet, duplicates of handled QoS 2 ids, more traffic) - retransmission lists and continuation traces must be equal, exported ids must be in use on Z, and the C06/C07/C08/C12 monitors keep running on Z with their models initialised from the export; malformed exports (duplicate ids, QoS 0 entries) must not panic. distinct = distinct (history shape, crash point)";
    let n = ctx.budget(120_000, 6_000_000);
    let known = super::connmon::known_signatures();
    let mut total = run_cases(ctx, 1, n, rule, |i, seed, rep| {
        let mut r = Rng::new(seed ^ 0x16);
        let fo = *r.pick(&[Focus::Store, Focus::Qos2In, Focus::Flow, Focus::General]);
        let mut sc = random_scenario(&mut r, fo, 3);
        if sc.ver == LVer::Undetermined {
            sc.ver = LVer::from_ver(sc.speak);
        }
        let crash_at = 4 + r.usize(40);
        let mut x = Driver::new(sc.clone(), seed);
        x.known = known.clone();
        x.do_setup();
        x.run_steps(crash_at);
        rep.evaluations += 1;
        rep.api_calls += x.api_calls;
        if x.dead || x.model.lost || !x.sink.found.is_empty() {
            rep.count("history_abandoned");
            return;
        }
        let Some(ver) = x.model.ver else { return };
        // ---- export at the crash point
        let export = x.conn.stored().unwrap_or_default();
        let handled = x.conn.handled().unwrap_or_default();
        if export.is_empty() && handled.is_empty() {
            rep.count("crash_point_with_empty_export");
        } else {
            rep.count("crash_point_with_nonempty_export");
        }
        if !x.model.persistent {
            rep.count("crash_point_non_persistent(skipped: nothing survives by definition)");
            return;
        }
        // ---- Z: fresh + restore (monitored)
        let mut z = Driver::new(sc.clone(), seed ^ 0x5A);
        z.known = known.clone();
        let m = x.model.clone();
        z.apply_options(&m);
        // the export is handed over "before reconnecting with the session present": either before the handshake starts or
        // (the natural place for a server, which learns the client id from the CONNECT) between CONNECT and CONNACK
        let late_restore = r.below(3) == 0;
        if late_restore {
            rep.count("restore_between_connect_and_connack");
        } else {
            z.restore(export.clone(), handled.clone());
        }
        // ids of the export are in use and cannot be re-acquired / registered
        rep.hit("E1-exported-ids-in-use-after-restore");
        for p in export.iter().filter(|_| !late_restore) {
            if let Some(id) = p.id() {
                match z.conn.register(id) {
                    Ok(Ok(())) => {
                        rep.violate(viol("C16", "E1-exported-ids-in-use-after-restore", "", format!("after restore, packet id {} of the exported {} could be registered again", id, p.short()), json!({"export": export.iter().map(|p| p.short()).collect::<Vec<_>>()}), (1, i)));
                        return;
                    }
                    Ok(Err(_)) => {}
                    Err(pn) => {
                        rep.violate(viol("C16", "panic", "call=register", pn.message, json!({}), (1, i)));
                        return;
                    }
                }
            }
        }
        // ---- the original loses its transport
        x.closed();
        if x.dead {
            return;
        }
        // ---- same reconnect + continuation on both (scripted, peer-driven)
        let connect = Pkt::Connect { ver, clean: false, keep_alive: 0, client_id: b"cid".to_vec(), will: None, user: None, pass: None, props: if ver == Ver::V5 { vec![p_u32(P_SEI, 50), p_u16(P_RM, 3)] } else { vec![] } };
        let rm = *r.pick(&[1u16, 2, 3, 65535]);
        let connack = Pkt::Connack { ver, sp: true, code: 0, props: if ver == Ver::V5 { vec![p_u16(P_RM, rm)] } else { vec![] } };
        let mut cont: Vec<Pkt> = Vec::new();
        for p in &export {
            match p {
                Pkt::Publish { qos: 1, id: Some(id), .. } => cont.push(Pkt::Ack { ver, kind: AckKind::Puback, id: *id, code: None, props: None }),
                Pkt::Publish { qos: 2, id: Some(id), .. } => {
                    cont.push(Pkt::Ack { ver, kind: AckKind::Pubrec, id: *id, code: None, props: None });
                }
                Pkt::Ack { kind: AckKind::Pubrel, id, .. } => cont.push(Pkt::Ack { ver, kind: AckKind::Pubcomp, id: *id, code: None, props: None }),
                _ => {}
            }
        }
        for h in handled.iter() {
            cont.push(Pkt::Publish { ver, dup: true, qos: 2, retain: false, topic: b"a".to_vec(), id: Some(*h), props: vec![], payload: b"q".to_vec() });
            cont.push(Pkt::Ack { ver, kind: AckKind::Pubrel, id: *h, code: None, props: None });
            cont.push(Pkt::Publish { ver, dup: false, qos: 2, retain: false, topic: b"a".to_vec(), id: Some(*h), props: vec![], payload: b"n".to_vec() });
        }
        // shuffle lightly
        for k in (1..cont.len()).rev() {
            if r.below(3) == 0 {
                let j = r.usize(k + 1);
                cont.swap(k, j);
            }
        }
        let run = |d: &mut Driver, restore_now: bool| -> Vec<String> {
            let mut start = d.op_trace.len();
            if d.sc.as_client {
                d.send(connect.clone());
            } else {
                d.feed(&rc::encode(&connect, d.sc.idw), &[]);
            }
            if restore_now {
                let first: Vec<String> = d.op_trace[start..].to_vec();
                d.restore(export.clone(), handled.clone());
                // (the restore call itself is not part of the compared trace)
                start = d.op_trace.len();
                d.op_trace.extend(first);
            }
            if d.sc.as_client {
                d.feed(&rc::encode(&connack, d.sc.idw), &[]);
            } else {
                d.send(connack.clone());
            }
            for p in &cont {
                d.feed(&rc::encode(p, d.sc.idw), &[]);
            }
            // (which of the three send entry points was used is a harness choice, not part of the behaviour)
            d.op_trace[start..].iter().map(|l| l.replace("send[Dynamic]", "send").replace("send[Checked]", "send").replace("send[CheckedGeneric]", "send")).collect::<Vec<String>>()
        };
        // application-held ids (acquired, unused) die with the process: release them on X so that both start equal
        let held: Vec<u32> = x.model.owner.iter().filter(|(id, o)| **o == Owner::App && x.model.in_use.contains(id)).map(|(id, _)| *id).collect();
        for id in held {
            x.release(id);
        }
        // exchanges between PUBREC and PUBCOMP whose PUBREL is not stored are not part of the export
        let unexported = x.model.owner.iter().any(|(id, o)| matches!(o, Owner::RelPending | Owner::PubComp) && !export.iter().any(|p| p.id() == Some(*id)));
        // (an Any-role original may have changed sides between its connections: both reconnect from the same side)
        z.sc.as_client = x.sc.as_client;
        let tx = run(&mut x, false);
        let tz = run(&mut z, late_restore);
        rep.api_calls += (2 + cont.len() as u64) * 2;
        rep.hit("E2-restored-object-continues-like-the-original");
        rep.distinct_hash(x.finish_shape() ^ (crash_at as u64) << 48);
        let zfound: Vec<_> = z.sink.found.iter().filter(|f| matches!(f.property, "C06" | "C07" | "C08" | "C12" | "C05")).cloned().collect();
        let witness = json!({"scenario": scenario_json(&sc), "history_until_crash": trace_json(&x.trace), "export": export.iter().map(|p| p.short()).collect::<Vec<_>>(), "handled": handled, "original_after_reconnect": tx, "restored_after_reconnect": tz});
        if let Some(f) = zfound.first() {
            rep.hit("E3-monitors-hold-on-restored-object");
            rep.violate(viol("C16", "E3-monitors-hold-on-restored-object", &format!("rule={}.{}", f.property, f.rule), format!("on the restored object: {}", f.what), witness, (1, i)));
            return;
        }
        rep.hit("E3-monitors-hold-on-restored-object");
        if !x.sink.found.is_empty() {
            rep.count("original_continuation_ended_by_other_rule");
            return;
        }
        if tx != tz && !unexported {
            let k = first_diff(&tx, &tz);
            rep.violate(viol("C16", "E2-restored-object-continues-like-the-original", &format!("step={}", if k < 2 { "handshake" } else { "continuation" }), format!("after reconnecting with session present, step {}: original `{}` / restored `{}`", k, tx.get(k).cloned().unwrap_or_default(), tz.get(k).cloned().unwrap_or_default()), witness, (1, i)));
            return;
        }
        if i % 9973 == 11 {
            rep.sample(witness, 3);
        }
        // a little random life on the restored object under the monitors
        z.run_steps(12);
        rep.api_calls += 12;
        if let Some(f) = z.sink.found.iter().find(|f| matches!(f.property, "C06" | "C07" | "C08" | "C12" | "C05")) {
            rep.violate(viol("C16", "E3-monitors-hold-on-restored-object", &format!("rule={}.{}", f.property, f.rule), format!("on the restored object (later): {}", f.what), json!({"restored_trace": trace_json(&z.trace)}), (1, i)));
        }
    });
    // malformed exports
    let r2 = run_cases(ctx, 2, ctx.budget(20_000, 500_000), "", |i, seed, rep| {
        let mut r = Rng::new(seed);
        let ver = if r.bool() { Ver::V5 } else { Ver::V311 };
        let idw = if r.bool() { 2 } else { 4 };
        let role = *r.pick(&[Role::Client, Role::Server, Role::Any]);
        let mut c = new_conn(role, idw, LVer::from_ver(ver));
        let mut ps = Vec::new();
        for _ in 0..r.usize(6) {
            let id = r.range(1, 3) as u32;
            ps.push(match r.below(4) {
                0 => Pkt::Publish { ver, dup: true, qos: 1, retain: false, topic: b"a".to_vec(), id: Some(id), props: vec![], payload: vec![] },
                1 => Pkt::Publish { ver, dup: true, qos: 2, retain: false, topic: b"a".to_vec(), id: Some(id), props: vec![], payload: vec![] },
                2 => Pkt::Ack { ver, kind: AckKind::Pubrel, id, code: None, props: None },
                _ => Pkt::Publish { ver: if ver == Ver::V5 { Ver::V311 } else { Ver::V5 }, dup: false, qos: 1, retain: false, topic: b"a".to_vec(), id: Some(id), props: vec![], payload: vec![] },
            });
        }
        rep.evaluations += 1;
        rep.hit("E4-malformed-export-skipped-without-panic");
        if let Err(p) = c.restore_packets(&ps) {
            rep.violate(viol("C16", "E4-malformed-export-skipped-without-panic", "", format!("restore_packets({:?}) panicked: {}", ps.iter().map(|p| p.short()).collect::<Vec<_>>(), p.message), json!({}), (2, i)));
            return;
        }
        // afterwards: store ids unique, every stored id in use
        let st = c.stored().unwrap_or_default();
        let ids: Vec<u32> = st.iter().filter_map(|p| p.id()).collect();
        let uniq: BTreeSet<u32> = ids.iter().copied().collect();
        if uniq.len() != ids.len() {
            rep.violate(viol("C16", "E4-malformed-export-skipped-without-panic", "dup=1", format!("restore_packets kept two packets with one id: {:?}", st.iter().map(|p| p.short()).collect::<Vec<_>>()), json!({}), (2, i)));
        }
        for id in uniq {
            if let Ok(Ok(())) = c.register(id) {
                rep.violate(viol("C16", "E1-exported-ids-in-use-after-restore", "malformed=1", format!("after restore of a malformed export id {} of a stored packet is free", id), json!({}), (2, i)));
            }
        }
        // the entries that were kept are a session like any other: resumed, retransmitted, and their acknowledgements
        // are accepted and release their ids (the skipped entries must not have touched the bookkeeping of the kept ones)
        if st.is_empty() {
            return;
        }
        let as_client = role != Role::Server;
        let connect = Pkt::Connect { ver, clean: false, keep_alive: 0, client_id: b"c".to_vec(), will: None, user: None, pass: None, props: if ver == Ver::V5 { vec![p_u32(P_SEI, 50)] } else { vec![] } };
        let connack = Pkt::Connack { ver, sp: true, code: 0, props: vec![] };
        let evs = if as_client {
            let _ = c.send(&connect, Via::Dynamic);
            c.recv(&rc::encode(&connack, idw)).map(|x| x.0).unwrap_or_default()
        } else {
            let _ = c.recv(&rc::encode(&connect, idw));
            match c.send(&connack, Via::Dynamic) {
                Ok(SendOutcome::Events(e)) => e,
                _ => vec![],
            }
        };
        rep.hit("E5-kept-entries-of-a-malformed-export-resume-normally");
        let resent: Vec<Pkt> = evs.iter().filter_map(|e| if let Ev::Send { pkt, .. } = e { Some(pkt.clone()) } else { None }).filter(|p| !matches!(p, Pkt::Connack { .. })).collect();
        if resent != st {
            rep.violate(viol("C16", "E5-kept-entries-of-a-malformed-export-resume-normally", "what=resend", format!("export {:?}: kept {:?} but retransmitted {:?}", ps.iter().map(|p| p.short()).collect::<Vec<_>>(), st.iter().map(|p| p.short()).collect::<Vec<_>>(), resent.iter().map(|p| p.short()).collect::<Vec<_>>()), json!({}), (2, i)));
            return;
        }
        for p in &st {
            let acks: Vec<Pkt> = match p {
                Pkt::Publish { qos: 1, id: Some(id), .. } => vec![Pkt::Ack { ver, kind: AckKind::Puback, id: *id, code: None, props: None }],
                Pkt::Publish { qos: 2, id: Some(id), .. } => vec![Pkt::Ack { ver, kind: AckKind::Pubrec, id: *id, code: if ver == Ver::V5 { Some(0x80) } else { None }, props: None }],
                Pkt::Ack { kind: AckKind::Pubrel, id, .. } => vec![Pkt::Ack { ver, kind: AckKind::Pubcomp, id: *id, code: None, props: None }],
                _ => vec![],
            };
            for a in acks {
                // (a v3.1.1 PUBREC continues the exchange: the id is released by the PUBCOMP that follows the PUBREL)
                let releases = !(ver == Ver::V311 && matches!(a, Pkt::Ack { kind: AckKind::Pubrec, .. }));
                let evs = c.recv(&rc::encode(&a, idw)).map(|x| x.0).unwrap_or_default();
                let id = a.id().unwrap_or(0);
                let refused = evs.iter().any(|e| e.is_error());
                let released = evs.iter().any(|e| matches!(e, Ev::Released(x) if *x == id));
                if refused || (releases && !released) {
                    rep.violate(viol("C16", "E5-kept-entries-of-a-malformed-export-resume-normally", &format!("what=ack;refused={};released={}", refused, released), format!("export {:?}: {} for the kept {} gave {}", ps.iter().map(|p| p.short()).collect::<Vec<_>>(), a.short(), p.short(), evs_short(&evs)), json!({}), (2, i)));
                    return;
                }
            }
        }
    });
    total.merge(r2);
    total.assumptions.push("an exchange between PUBREC and PUBCOMP whose PUBREL was not yet handed to send() is not part of the export (nothing to store yet); histories crashed in that window are compared only through the monitors on the restored object".into());
    if ctx.replay.is_none() {
        total.require_hits(&[("E1-exported-ids-in-use-after-restore", 2_000), ("E2-restored-object-continues-like-the-original", 2_000)]);
    }
    total
}
