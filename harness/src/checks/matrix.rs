//! C11 (send gating: role x version x status x kind x persistent x offline, exhaustive, + compile-time
//! table through the autoref probe) and C17 (receive gating by role, CONNECT/CONNACK on an established
//! connection, Undetermined-server adoption + trace equality with a fixed-version server).

use crate::apkt::*;
use crate::conn::*;
use crate::driver::{random_scenario, Driver, Focus};
use crate::refcodec as rc;
use crate::report::{run_cases, Ctx, Report, Violation};
use crate::rng::Rng;
use serde_json::json;
use std::collections::BTreeSet;

#[derive(Clone, Copy, Debug, PartialEq, Eq)]
pub enum Status {
    D,
    Cg,
    Cd,
}
#[derive(Clone, Copy, Debug, PartialEq, Eq)]
enum Expect {
    Pass,
    Refused,
    /// may be queued (no error, no send) or refused - must not reach the transport
    QueuedOrRefused,
}

fn fail(prop: &str, rule: &str, attrs: String, what: String, witness: serde_json::Value) -> Violation {
    Violation { property: prop.into(), rule: rule.into(), signature: format!("{}.{}@{}", prop, rule, attrs), what, witness, case: (1, 0) }
}

fn connect_pkt(ver: Ver, persistent: bool) -> Pkt {
    Pkt::Connect {
        ver,
        clean: !persistent,
        keep_alive: 0,
        client_id: b"c".to_vec(),
        will: None,
        user: None,
        pass: None,
        props: if ver == Ver::V5 && persistent { vec![p_u32(P_SEI, 50)] } else { vec![] },
    }
}
fn connack_with(ver: Ver, sei: Option<u32>) -> Pkt {
    Pkt::Connack { ver, sp: false, code: 0, props: sei.map(|v| vec![p_u32(P_SEI, v)]).unwrap_or_default() }
}
fn connack_pkt(ver: Ver) -> Pkt {
    Pkt::Connack { ver, sp: false, code: 0, props: vec![] }
}

/// bring a fresh object to (status, persistent, offline); returns log of the prefix
fn build_state(role: Role, idw: usize, lver: LVer, as_client: bool, st: Status, persistent: bool, offline: bool) -> Option<(Box<dyn Conn>, Vec<String>)> {
    build_state_p(role, idw, lver, as_client, st, persistent, offline, false, None).map(|(c, l, _)| (c, l))
}
/// ids the priming leaves behind: inbound QoS 2 (handled), inbound QoS 1, own stored QoS 1, own QoS 2 with PUBREL stored
#[derive(Clone, Copy, Debug, PartialEq)]
struct PrimedIds {
    in_q2: u32,
    in_q1: u32,
    own_q1: u32,
    own_q2: u32,
    /// own QoS 2 id whose PUBREC has arrived and whose PUBREL has not been sent yet
    own_q2_recd: u32,
}
/// `primed`: while the (previous or current) connection is established, leave session state behind that a
/// refused call could disturb: a handled inbound QoS 2 id, an unacknowledged inbound QoS 1 id, a stored own
/// QoS 1 PUBLISH and a stored own PUBREL. Only meaningful when that state survives into `st` (st == Cd, or persistent).
#[allow(clippy::too_many_arguments)]
/// `connack_sei`: the CONNACK of the (last completed) handshake carries this Session Expiry Interval, which overrides what
/// the CONNECT asked for (v5.0 only; states whose handshake has no CONNACK yet are not built)
#[allow(clippy::too_many_arguments)]
fn build_state_p(role: Role, idw: usize, lver: LVer, as_client: bool, st: Status, persistent: bool, offline: bool, primed: bool, connack_sei: Option<u32>) -> Option<(Box<dyn Conn>, Vec<String>, Option<PrimedIds>)> {
    if primed && !(st == Status::Cd || persistent) {
        return None;
    }
    if connack_sei.is_some() && (lver != LVer::V5 || (st == Status::D && !persistent && connack_sei == Some(0))) {
        return None;
    }
    if primed && lver.to_ver().is_none() {
        return None;
    }
    let mut c = new_conn(role, idw, lver);
    let mut log = Vec::new();
    let mut ids = None;
    if offline {
        c.set_opt(Opt::OfflinePublish, true).ok()?;
        log.push("set_offline_publish(true)".to_string());
    }
    let Some(ver) = lver.to_ver() else {
        // Undetermined: only the initial (disconnected) state exists
        return if st == Status::D && !persistent { Some((c, log, None)) } else { None };
    };
    let feed = |c: &mut Box<dyn Conn>, p: &Pkt, log: &mut Vec<String>| -> Option<()> {
        let b = rc::encode(p, idw);
        let (evs, n) = c.recv(&b).ok()?;
        log.push(format!("recv({}) => {}", p.short(), evs_short(&evs)));
        if n != b.len() {
            return None;
        }
        Some(())
    };
    let send = |c: &mut Box<dyn Conn>, p: &Pkt, log: &mut Vec<String>| -> Option<()> {
        match c.send(p, Via::Dynamic).ok()? {
            SendOutcome::Events(evs) => {
                log.push(format!("send({}) => {}", p.short(), evs_short(&evs)));
                Some(())
            }
            _ => None,
        }
    };
    let handshake = |c: &mut Box<dyn Conn>, upto_connected: bool, log: &mut Vec<String>| -> Option<()> {
        if as_client {
            send(c, &connect_pkt(ver, persistent), log)?;
            if upto_connected {
                feed(c, &connack_with(ver, connack_sei), log)?;
            }
        } else {
            feed(c, &connect_pkt(ver, persistent), log)?;
            if upto_connected {
                send(c, &connack_with(ver, connack_sei), log)?;
            }
        }
        Some(())
    };
    let prime = |c: &mut Box<dyn Conn>, log: &mut Vec<String>| -> Option<PrimedIds> {
        feed(c, &Pkt::Publish { ver, dup: false, qos: 2, retain: false, topic: b"p".to_vec(), id: Some(3), props: vec![], payload: vec![] }, log)?;
        feed(c, &Pkt::Publish { ver, dup: false, qos: 1, retain: false, topic: b"p".to_vec(), id: Some(4), props: vec![], payload: vec![] }, log)?;
        let a = c.acquire().ok()?.ok()?;
        send(c, &packet_for(Kind::Publish, ver, 1, a), log)?;
        let b = c.acquire().ok()?.ok()?;
        send(c, &packet_for(Kind::Publish, ver, 2, b), log)?;
        feed(c, &Pkt::Ack { ver, kind: AckKind::Pubrec, id: b, code: None, props: None }, log)?;
        send(c, &Pkt::Ack { ver, kind: AckKind::Pubrel, id: b, code: None, props: None }, log)?;
        let b2 = c.acquire().ok()?.ok()?;
        send(c, &packet_for(Kind::Publish, ver, 2, b2), log)?;
        feed(c, &Pkt::Ack { ver, kind: AckKind::Pubrec, id: b2, code: None, props: None }, log)?;
        Some(PrimedIds { in_q2: 3, in_q1: 4, own_q1: a, own_q2: b, own_q2_recd: b2 })
    };
    let close = |c: &mut Box<dyn Conn>, log: &mut Vec<String>| -> Option<()> {
        let e = c.notify_closed().ok()?;
        log.push(format!("notify_closed() => {}", evs_short(&e)));
        Some(())
    };
    match st {
        Status::D => {
            if persistent || connack_sei.is_some() {
                // the last session was persistent
                handshake(&mut c, true, &mut log)?;
                if primed {
                    ids = Some(prime(&mut c, &mut log)?);
                }
                close(&mut c, &mut log)?;
            }
        }
        Status::Cg => {
            if connack_sei.is_some() {
                // (the override of an earlier connection must not leak into the next handshake: this one asks anew)
                return None;
            }
            if primed {
                handshake(&mut c, true, &mut log)?;
                ids = Some(prime(&mut c, &mut log)?);
                close(&mut c, &mut log)?;
            }
            handshake(&mut c, false, &mut log)?
        }
        Status::Cd => {
            handshake(&mut c, true, &mut log)?;
            if primed {
                ids = Some(prime(&mut c, &mut log)?);
            }
        }
    }
    Some((c, log, ids))
}

/// the 31 send cells: 29 concrete packet kinds with PUBLISH split by QoS
fn send_cells() -> Vec<(Kind, Ver, u8)> {
    let mut v = Vec::new();
    for k in ALL_KINDS {
        for ver in [Ver::V311, Ver::V5] {
            if k == Kind::Auth && ver == Ver::V311 {
                continue;
            }
            if k == Kind::Publish {
                for q in 0..3u8 {
                    v.push((k, ver, q));
                }
            } else {
                v.push((k, ver, 0));
            }
        }
    }
    v
}
/// the same ack with a failure reason code (v5.0 only): the gating is the same, the bookkeeping is not
fn negative(p: Pkt) -> Pkt {
    match p {
        Pkt::Ack { ver: Ver::V5, kind, id, .. } => {
            let code = match kind {
                AckKind::Puback | AckKind::Pubrec => 0x80,
                AckKind::Pubrel | AckKind::Pubcomp => 0x92,
            };
            Pkt::Ack { ver: Ver::V5, kind, id, code: Some(code), props: None }
        }
        other => other,
    }
}
fn packet_for(k: Kind, ver: Ver, qos: u8, id: u32) -> Pkt {
    match k {
        Kind::Connect => connect_pkt(ver, false),
        Kind::Connack => connack_pkt(ver),
        Kind::Publish => Pkt::Publish { ver, dup: false, qos, retain: false, topic: b"t".to_vec(), id: if qos > 0 { Some(id) } else { None }, props: vec![], payload: b"x".to_vec() },
        Kind::Puback => Pkt::Ack { ver, kind: AckKind::Puback, id, code: None, props: None },
        Kind::Pubrec => Pkt::Ack { ver, kind: AckKind::Pubrec, id, code: None, props: None },
        Kind::Pubrel => Pkt::Ack { ver, kind: AckKind::Pubrel, id, code: None, props: None },
        Kind::Pubcomp => Pkt::Ack { ver, kind: AckKind::Pubcomp, id, code: None, props: None },
        Kind::Subscribe => Pkt::Subscribe { ver, id, props: vec![], entries: vec![(b"a".to_vec(), 0)] },
        Kind::Suback => Pkt::Suback { ver, id, props: vec![], codes: vec![0] },
        Kind::Unsubscribe => Pkt::Unsubscribe { ver, id, props: vec![], entries: vec![b"a".to_vec()] },
        Kind::Unsuback => Pkt::Unsuback { ver, id, props: vec![], codes: if ver == Ver::V5 { vec![0] } else { vec![] } },
        Kind::Pingreq => Pkt::Pingreq { ver },
        Kind::Pingresp => Pkt::Pingresp { ver },
        Kind::Disconnect => Pkt::Disconnect { ver, code: None, props: None },
        Kind::Auth => Pkt::Auth { code: Some(0x18), props: Some(vec![p_str(21, "m")]) },
    }
}
/// Appendix A row 2: may this role ever send this kind?
fn role_may_send(role: Role, k: Kind, ver: Ver) -> bool {
    let client_only = matches!(k, Kind::Connect | Kind::Subscribe | Kind::Unsubscribe | Kind::Pingreq) || (k == Kind::Disconnect && ver == Ver::V311);
    let server_only = matches!(k, Kind::Connack | Kind::Suback | Kind::Unsuback | Kind::Pingresp);
    match role {
        Role::Any => true,
        Role::Client => !server_only,
        Role::Server => !client_only,
    }
}
fn expectation(role: Role, lver: LVer, st: Status, k: Kind, ver: Ver, qos: u8, persistent: bool, offline: bool) -> Expect {
    if lver.to_ver() != Some(ver) {
        return Expect::Refused;
    }
    if !role_may_send(role, k, ver) {
        return Expect::Refused;
    }
    match k {
        Kind::Connect => if st == Status::D { Expect::Pass } else { Expect::Refused },
        Kind::Connack => if st == Status::Cg { Expect::Pass } else { Expect::Refused },
        Kind::Auth => if st == Status::D { Expect::Refused } else { Expect::Pass },
        Kind::Publish if qos > 0 => {
            if st == Status::Cd {
                Expect::Pass
            } else if persistent || offline {
                Expect::QueuedOrRefused
            } else {
                Expect::Refused
            }
        }
        Kind::Pubrel => {
            if st == Status::Cd {
                Expect::Pass
            } else if persistent || offline {
                // ("an offline/persistent QoS>0 publish or PUBREL": both adjectives apply to both nouns)
                Expect::QueuedOrRefused
            } else {
                Expect::Refused
            }
        }
        _ => if st == Status::Cd { Expect::Pass } else { Expect::Refused },
    }
}

/// a fixed continuation that exercises ids, handshake, a QoS 1 exchange, a ping and a close
fn continuation(c: &mut Box<dyn Conn>, idw: usize, ver: Option<Ver>, as_client: bool, st: Status) -> Vec<String> {
    let mut out = Vec::new();
    let mut push = |name: &str, evs: Vec<Ev>| out.push(format!("{} => {}", name, evs_short(&normalise(&evs))));
    let Some(ver) = ver else {
        let a = c.acquire().ok().and_then(|r| r.ok());
        push(&format!("acquire -> {:?}", a), vec![]);
        return out;
    };
    let feed = |c: &mut Box<dyn Conn>, p: &Pkt| -> Vec<Ev> { c.recv(&rc::encode(p, idw)).map(|x| x.0).unwrap_or_default() };
    let send = |c: &mut Box<dyn Conn>, p: &Pkt| -> Vec<Ev> {
        match c.send(p, Via::Dynamic) {
            Ok(SendOutcome::Events(e)) => e,
            _ => vec![],
        }
    };
    let mut st = st;
    if st == Status::D {
        if as_client {
            let e = send(c, &connect_pkt(ver, true));
            push("send CONNECT", e);
        } else {
            let e = feed(c, &connect_pkt(ver, true));
            push("recv CONNECT", e);
        }
        st = Status::Cg;
    }
    if st == Status::Cg {
        if as_client {
            let e = feed(c, &Pkt::Connack { ver, sp: true, code: 0, props: vec![] });
            push("recv CONNACK(sp)", e);
        } else {
            let e = send(c, &Pkt::Connack { ver, sp: true, code: 0, props: vec![] });
            push("send CONNACK(sp)", e);
        }
    }
    let a = c.acquire().ok().and_then(|r| r.ok());
    push(&format!("acquire -> {:?}", a), vec![]);
    if let Some(id) = a {
        let e = send(c, &packet_for(Kind::Publish, ver, 1, id));
        push("send PUBLISH q1", e);
        let e = feed(c, &Pkt::Ack { ver, kind: AckKind::Puback, id, code: None, props: None });
        push("recv PUBACK", e);
    }
    let e = feed(c, &Pkt::Publish { ver, dup: false, qos: 2, retain: false, topic: b"t".to_vec(), id: Some(7), props: vec![], payload: vec![] });
    push("recv PUBLISH q2 id7", e);
    let e = if as_client { send(c, &Pkt::Pingreq { ver }) } else { feed(c, &Pkt::Pingreq { ver }) };
    push("PINGREQ", e);
    let s = c.stored().unwrap_or_default();
    push(&format!("stored {:?}", s.iter().map(|p| p.short()).collect::<Vec<_>>()), vec![]);
    push(&format!("vacancy {:?} handled {:?}", c.vacancy().ok(), c.handled().ok()), vec![]);
    let e = c.notify_closed().unwrap_or_default();
    push("notify_closed", e);
    out
}

pub fn run_c11(ctx: &Ctx) -> Report {
    let mut rep = Report::new("exhaustive matrix {Client, Server, Any-as-client, Any-as-server} x {v3.1.1, v5.0, undetermined} x {disconnected, connecting, connected} x 31 send cells (29 concrete packet kinds, PUBLISH split by QoS) x persistent{0,1} x offline{0,1} x id width{2,4}; each cell builds its state by a scripted prefix, sends through send(), checked_send(concrete) and checked_send(GenericPacket), compares with the reference gating table (DESIGN Appendix A), and for refused calls compares digest and a fixed continuation trace with a twin that never made the call; plus the compile-time Sendable table (autoref probe) against the role table. distinct = distinct cells");
    rep.exhaustive = true;
    let cells = send_cells();
    let paths: [(Role, bool); 4] = [(Role::Client, true), (Role::Server, false), (Role::Any, true), (Role::Any, false)];
    for (role, as_client) in paths {
        for lver in [LVer::V311, LVer::V5, LVer::Undetermined] {
            for st in [Status::D, Status::Cg, Status::Cd] {
                for persistent in [false, true] {
                    for offline in [false, true] {
                        for idw in [2usize, 4] {
                            if build_state(role, idw, lver, as_client, st, persistent, offline).is_none() {
                                continue;
                            }
                            for (k, ver, qos) in cells.iter().copied() {
                                for via in [Via::Dynamic, Via::Checked, Via::CheckedGeneric] {
                                    cell(&mut rep, role, as_client, lver, st, persistent, offline, idw, k, ver, qos, via, false, false, false);
                                }
                                // the same cell on a session that has something to lose, and acks that carry a failure code
                                let is_ack = matches!(k, Kind::Puback | Kind::Pubrec | Kind::Pubrel | Kind::Pubcomp);
                                for neg in [false, true] {
                                    if neg && !(is_ack && ver == Ver::V5) {
                                        continue;
                                    }
                                    cell(&mut rep, role, as_client, lver, st, persistent, offline, idw, k, ver, qos, Via::Dynamic, true, neg, false);
                                    if neg {
                                        cell(&mut rep, role, as_client, lver, st, persistent, offline, idw, k, ver, qos, Via::Dynamic, false, true, false);
                                    }
                                }
                                // the CONNACK overrides the session expiry the CONNECT asked for
                                if ver == Ver::V5 && lver == LVer::V5 && (k == Kind::Pubrel || (k == Kind::Publish && qos > 0)) {
                                    for sei in [0u32, 50] {
                                        cell_sei(&mut rep, role, as_client, lver, st, persistent, offline, idw, k, ver, qos, Via::Dynamic, false, false, false, Some(sei));
                                    }
                                }
                                // a second packet on an id that already carries a stored exchange
                                if k == Kind::Pubrel || (k == Kind::Publish && qos > 0) {
                                    cell(&mut rep, role, as_client, lver, st, persistent, offline, idw, k, ver, qos, Via::Dynamic, true, false, true);
                                }
                            }
                        }
                    }
                }
            }
        }
    }
    // G6: the status the gating consults is itself kept by the send path - a CONNACK that refuses the connection (any
    // failure code of either version) ends it, so what follows is gated like the disconnected state (and a CONNACK
    // that accepts makes it connected). One cell per reason-code byte the builder accepts.
    for (role, as_client) in [(Role::Server, false), (Role::Any, false)] {
        for lver in [LVer::V311, LVer::V5, LVer::Undetermined] {
            for idw in [2usize, 4] {
                for ver in [Ver::V311, Ver::V5] {
                    for code in 0u8..=255 {
                        for persistent in [false, true] {
                            let Some((mut c, log)) = build_state(role, idw, lver, as_client, Status::Cg, persistent, false) else { continue };
                            let p = Pkt::Connack { ver, sp: false, code, props: vec![] };
                            let Ok(SendOutcome::Events(evs)) = c.send(&p, Via::Dynamic) else { continue };
                            if evs.iter().any(|e| e.is_error()) || !evs.iter().any(|e| matches!(e, Ev::Send { pkt: Pkt::Connack { .. }, .. })) {
                                continue; // (not passed on: a CONNACK of the other version - judged by G1)
                            }
                            rep.evaluations += 1;
                            let name = format!("role={:?}/server-path conn={:?} idw={} persistent={} after CONNACK {:?} code=0x{:02x}", role, lver, idw, persistent, ver, code);
                            rep.distinct_case(name.as_bytes());
                            for (k, qos) in [(Kind::Publish, 0u8), (Kind::Pingresp, 0), (Kind::Suback, 0)] {
                                let q = packet_for(k, ver, qos, 1);
                                let Ok(SendOutcome::Events(e2)) = c.send(&q, Via::Dynamic) else { continue };
                                rep.hit("G6-refusing-connack-ends-the-connection");
                                let passed = e2.iter().any(|e| matches!(e, Ev::Send { .. }));
                                let want_pass = code == 0;
                                if passed != want_pass {
                                    rep.violate(fail("C11", "G6-refusing-connack-ends-the-connection", format!("ver={:?};code_class={};kind={:?};passed={}", ver, if code == 0 { "success" } else { "failure" }, k, passed), format!("{}: send({}) afterwards: {}", name, q.short(), evs_short(&e2)), json!({"cell": name, "prefix": log, "connack_events": evs_short(&evs), "events": evs_short(&e2)})));
                                    break;
                                }
                            }
                        }
                    }
                }
            }
        }
    }
    // compile-time table
    for role in [Role::Client, Role::Server, Role::Any] {
        for idw in [2usize, 4] {
            let c = new_conn(role, idw, LVer::V5);
            for (k, ver, qos) in cells.iter().copied() {
                let p = packet_for(k, ver, qos, 1);
                rep.hit("G4-compile-time-table-equals-role-table");
                rep.evaluations += 1;
                let got = c.sendable_static(&p);
                let want = role_may_send(role, k, ver);
                if got != Some(want) {
                    rep.violate(fail("C11", "G4-compile-time-table-equals-role-table", format!("role={:?};kind={:?};ver={:?};static={:?}", role, k, ver, got), format!("{:?}: `{:?} {:?}: Sendable<{:?}, u{}>` holds = {:?}, but MQTT lets that role send it = {}", role, k, ver, role, idw * 8, got, want), json!({"role": format!("{:?}", role), "kind": format!("{:?}", k), "ver": format!("{:?}", ver)})));
                }
            }
        }
    }
    rep.assumptions.push("reference gating table = DESIGN Appendix A (who may send what, in which version and status; a QoS>0 PUBLISH / PUBREL outside the connected state may be queued or refused but never reaches the transport)".into());
    if ctx.replay.is_none() {
        rep.require_hits(&[("G1-outcome-equals-gating-table", 10_000), ("G3-refused-call-leaves-no-trace", 5_000), ("G4-compile-time-table-equals-role-table", 100), ("G6-refusing-connack-ends-the-connection", 300)]);
    }
    rep
}

#[allow(clippy::too_many_arguments)]
fn cell(rep: &mut Report, role: Role, as_client: bool, lver: LVer, st: Status, persistent: bool, offline: bool, idw: usize, k: Kind, ver: Ver, qos: u8, via: Via, primed: bool, neg: bool, dup: bool) {
    cell_sei(rep, role, as_client, lver, st, persistent, offline, idw, k, ver, qos, via, primed, neg, dup, None)
}
#[allow(clippy::too_many_arguments)]
fn cell_sei(rep: &mut Report, role: Role, as_client: bool, lver: LVer, st: Status, persistent: bool, offline: bool, idw: usize, k: Kind, ver: Ver, qos: u8, via: Via, primed: bool, neg: bool, dup: bool, connack_sei: Option<u32>) {
    let Some((mut c, log, pids)) = build_state_p(role, idw, lver, as_client, st, persistent, offline, primed, connack_sei) else { return };
    let Some((mut twin, _, pids2)) = build_state_p(role, idw, lver, as_client, st, persistent, offline, primed, connack_sei) else { return };
    // the CONNACK has the last word on whether the session outlives the connection
    let persistent = match connack_sei {
        Some(v) => v != 0,
        None => persistent,
    };
    if pids != pids2 {
        rep.violate(fail("C11", "harness", "prime".into(), format!("priming differs between twins {:?} {:?}", pids, pids2), json!({})));
        return;
    }
    let name = format!("role={:?}/{} conn={:?} status={:?} persistent={} offline={} idw={} packet={:?}{:?}{}{} via={:?}{}", role, if as_client { "client-path" } else { "server-path" }, lver, st, persistent, offline, idw, k, ver, if k == Kind::Publish { format!("q{}", qos) } else { String::new() }, if neg { "(failure code)" } else { "" }, via, if dup { " primed, id of a stored exchange" } else if primed { " primed" } else { "" }.to_string() + &connack_sei.map(|v| format!(" CONNACK(SessionExpiryInterval={})", v)).unwrap_or_default());
    rep.evaluations += 1;
    rep.distinct_case(name.as_bytes());
    // ids of ours come from acquire so that no cell is refused for an unrelated reason
    // on a primed session the acks answer the exchanges the priming left open
    let primed_id = pids.and_then(|p| match k {
        Kind::Puback => Some(p.in_q1),
        Kind::Pubrec | Kind::Pubcomp => Some(p.in_q2),
        Kind::Pubrel => Some(if dup { p.own_q2 } else { p.own_q2_recd }),
        Kind::Publish if dup => Some(p.own_q1),
        _ => None,
    });
    let needs_own_id = primed_id.is_none() && (matches!(k, Kind::Subscribe | Kind::Unsubscribe | Kind::Pubrel) || (k == Kind::Publish && qos > 0));
    let id = if let Some(i) = primed_id {
        i
    } else if needs_own_id {
        let a = c.acquire().ok().and_then(|r| r.ok());
        let b = twin.acquire().ok().and_then(|r| r.ok());
        if a != b || a.is_none() {
            rep.violate(fail("C11", "harness", "acquire".into(), format!("{}: acquire differs between twins {:?} {:?}", name, a, b), json!({})));
            return;
        }
        a.unwrap()
    } else {
        1
    };
    let p = if neg { negative(packet_for(k, ver, qos, id)) } else { packet_for(k, ver, qos, id) };
    let want = expectation(role, lver, st, k, ver, qos, persistent, offline);
    let out = match c.send(&p, via) {
        Err(pn) => {
            rep.violate(fail("C11", "panic", format!("kind={:?};status={:?}{}", k, st, if dup { ";busy_id" } else { "" }), format!("{}: send panicked: {}", name, pn.message), json!({"prefix": log})));
            return;
        }
        Ok(o) => o,
    };
    let evs = match out {
        SendOutcome::NotBuilt(e) => {
            rep.count(&format!("not_built[{:?}]", e));
            return;
        }
        SendOutcome::NotSendable => {
            // compile-time refusal: must coincide with the role table
            rep.hit("G2-checked-send-refuses-exactly-role-table");
            if role_may_send(role, k, ver) {
                rep.violate(fail("C11", "G2-checked-send-refuses-exactly-role-table", format!("role={:?};kind={:?};ver={:?}", role, k, ver), format!("{}: checked_send does not compile for a packet the role may send", name), json!({})));
            }
            return;
        }
        SendOutcome::Events(e) => e,
    };
    if via == Via::Checked {
        rep.hit("G2-checked-send-refuses-exactly-role-table");
        if !role_may_send(role, k, ver) {
            rep.violate(fail("C11", "G2-checked-send-refuses-exactly-role-table", format!("role={:?};kind={:?};ver={:?};compiles=true", role, k, ver), format!("{}: checked_send compiles for a packet MQTT never lets this role send", name), json!({})));
        }
    }
    let has_err = evs.iter().any(|e| e.is_error());
    let sends: Vec<&Pkt> = evs.iter().filter_map(|e| if let Ev::Send { pkt, .. } = e { Some(pkt) } else { None }).collect();
    let got = if !sends.is_empty() { "PASS" } else if has_err { "REFUSED" } else { "QUEUED" };
    rep.hit("G1-outcome-equals-gating-table");
    let ok = match want {
        // (a second packet on a busy id may be refused for that reason where the table lets the kind pass)
        Expect::Pass if dup && has_err => sends.is_empty(),
        Expect::Pass => !has_err && sends.first().map(|s| s.kind() == k).unwrap_or(false),
        Expect::Refused => has_err && sends.is_empty(),
        Expect::QueuedOrRefused => sends.is_empty(),
    };
    rep.count(&format!("outcome[{}]", got));
    let witness = json!({"cell": name, "prefix": log, "call": format!("send({})", p.short()), "events": evs_short(&evs)});
    if !ok {
        rep.violate(fail("C11", "G1-outcome-equals-gating-table", format!("role={:?};client_path={};conn={:?};status={:?};kind={:?};ver={:?};qos={};persistent={};offline={};got={}", role, as_client, lver, st, k, ver, qos, persistent, offline, got), format!("{}: expected {:?}, observed {} {}", name, want, got, evs_short(&evs)), witness.clone()));
        return;
    }
    if got == "QUEUED" {
        // "queued" must mean queued: the packet is in the exported store (otherwise the call was neither
        // passed on, nor refused, nor kept - it vanished)
        rep.hit("G5-queued-means-stored");
        let stored = c.stored().unwrap_or_default();
        if !stored.iter().any(|q| q.id() == Some(id) && q.kind() == k) {
            rep.violate(fail("C11", "G5-queued-means-stored", format!("kind={:?};ver={:?};status={:?};persistent={};offline={}", k, ver, st, persistent, offline), format!("{}: send returned no error and no send request, but the packet is not in get_stored_packets() either", name), witness.clone()));
            return;
        }
    }
    if got == "REFUSED" {
        // only error events, plus the release of this packet's id
        rep.hit("G3-refused-call-leaves-no-trace");
        let mut released = false;
        for e in &evs {
            match e {
                Ev::Error(_) => {}
                // (on a busy id too: C11 and C08 let a refused send release "the packet's identifier"; that this
                // takes the id away from the stored exchange is C06's concern and arises only from application
                // misuse - left unjudged, DESIGN section 9)
                Ev::Released(i) if (needs_own_id || dup) && *i == id => released = true,
                other => {
                    rep.violate(fail("C11", "G3-refused-call-leaves-no-trace", format!("kind={:?};status={:?};extra_event=1{}", k, st, if dup { ";busy_id" } else { "" }), format!("{}: a refused send returned {}", name, other.short()), witness.clone()));
                    return;
                }
            }
        }
        if released {
            let _ = twin.release(id);
        }
        let da = c.digest();
        let db = twin.digest();
        // (when the refusal kept the id - recorded C08 findings - the twins agree as well: both hold it)
        if da != db {
            rep.violate(fail("C11", "G3-refused-call-leaves-no-trace", format!("kind={:?};ver={:?};status={:?};how=digest{}{}{}", k, ver, st, if primed { ";primed" } else { "" }, if neg { ";failure_code" } else { "" }, if dup { ";busy_id" } else { "" }), format!("{}: after the refused call the object differs from one that never made the call:\n  with call   : {}\n  without call: {}", name, da.unwrap_or_default(), db.unwrap_or_default()), witness.clone()));
            return;
        }
        let ta = continuation(&mut c, idw, lver.to_ver(), as_client, st);
        let tb = continuation(&mut twin, idw, lver.to_ver(), as_client, st);
        if ta != tb {
            let i = ta.iter().zip(tb.iter()).position(|(a, b)| a != b).unwrap_or(0);
            rep.violate(fail("C11", "G3-refused-call-leaves-no-trace", format!("kind={:?};ver={:?};status={:?};how=continuation{}{}{}", k, ver, st, if primed { ";primed" } else { "" }, if neg { ";failure_code" } else { "" }, if dup { ";busy_id" } else { "" }), format!("{}: continuation differs at step {}: with call `{}` / without `{}`", name, i, ta.get(i).cloned().unwrap_or_default(), tb.get(i).cloned().unwrap_or_default()), witness));
        }
    }
    if rep.samples.len() < 4 && rep.evaluations % 4001 == 0 {
        rep.sample(json!({"cell": name, "expected": format!("{:?}", want), "observed": got, "events": evs_short(&evs)}), 4);
    }
}

// ------------------------------------------------------------------------------------------------
// C17

fn forbidden_for(role: Role, ver: Ver, ty: u8) -> bool {
    if ty == 0 {
        return true;
    }
    if ty == 15 && ver == Ver::V311 {
        return true;
    }
    match role {
        Role::Client => matches!(ty, 1 | 8 | 10 | 12) || (ty == 14 && ver == Ver::V311),
        Role::Server => matches!(ty, 2 | 9 | 11 | 13),
        Role::Any => false,
    }
}

fn minimal_frame(ty: u8, ver: Ver, idw: usize) -> Vec<u8> {
    match Kind::from_nibble(ty) {
        Some(k) if !(k == Kind::Auth && ver == Ver::V311) => rc::encode(&packet_for(k, ver, 1, 3), idw),
        _ => vec![ty << 4, 0],
    }
}

/// a persistent session with something in every part of the session state
fn primed(role: Role, idw: usize, ver: Ver, as_client: bool, st: Status) -> Option<(Box<dyn Conn>, Vec<String>)> {
    let (mut c, mut log) = build_state(role, idw, LVer::from_ver(ver), as_client, Status::Cd, true, false)?;
    let id = c.acquire().ok()?.ok()?;
    let _ = c.send(&packet_for(Kind::Publish, ver, 1, id), Via::Dynamic).ok()?;
    let (_, _) = c.recv(&rc::encode(&Pkt::Publish { ver, dup: false, qos: 2, retain: false, topic: b"t".to_vec(), id: Some(9), props: vec![], payload: vec![] }, idw)).ok()?;
    let _held = c.acquire().ok()?.ok()?;
    log.push("publish q1 stored; inbound q2 id9 handled; one id held".into());
    match st {
        Status::Cd => {}
        Status::D => {
            c.notify_closed().ok()?;
        }
        Status::Cg => {
            c.notify_closed().ok()?;
            if as_client {
                c.send(&connect_pkt(ver, true), Via::Dynamic).ok()?;
            } else {
                c.recv(&rc::encode(&connect_pkt(ver, true), idw)).ok()?;
            }
        }
    }
    Some((c, log))
}
fn session_view(c: &mut Box<dyn Conn>) -> String {
    let stored: Vec<String> = c.stored().unwrap_or_default().iter().map(|p| p.short()).collect();
    let handled = c.handled().unwrap_or_default();
    let ids: Vec<u32> = vec![1, 2, 3, 4, 9];
    let in_use = c.in_use_hook(&ids);
    format!("stored={:?} handled={:?} in_use={:?}", stored, handled, in_use)
}

pub fn run_c17(ctx: &Ctx) -> Report {
    let mut rep = Report::new("exhaustive matrix role{Client,Server,Any-as-client,Any-as-server} x version{v3.1.1,v5.0} x status{disconnected,connecting,connected} x 16 packet-type nibbles x body{minimal valid, empty} x id width{2,4} on a primed persistent session (stored publish, handled QoS 2 id, held id), judged against the receive-gating table of DESIGN Appendix B; CONNECT/CONNACK on an established connection; Undetermined-server adoption cells; and trace equality of an Undetermined server with a fixed-version server over seeded driver histories. distinct = distinct cells + distinct twin histories");
    let paths: [(Role, bool); 4] = [(Role::Client, true), (Role::Server, false), (Role::Any, true), (Role::Any, false)];
    for (role, as_client) in paths {
        for ver in [Ver::V311, Ver::V5] {
            for st in [Status::D, Status::Cg, Status::Cd] {
                for ty in 0..16u8 {
                    for idw in [2usize, 4] {
                        for empty_body in [false, true] {
                            let Some((mut c, log)) = primed(role, idw, ver, as_client, st) else { continue };
                            let frame = if empty_body { vec![(ty << 4) | if matches!(ty, 6 | 8 | 10) { 2 } else { 0 }, 0] } else { minimal_frame(ty, ver, idw) };
                            let name = format!("role={:?}/{} ver={:?} status={:?} type={} body={} idw={}", role, if as_client { "client-path" } else { "server-path" }, ver, st, ty, if empty_body { "empty" } else { "minimal" }, idw);
                            rep.evaluations += 1;
                            rep.distinct_case(name.as_bytes());
                            let before = session_view(&mut c);
                            let dbefore = c.digest();
                            let (evs, n) = match c.recv(&frame) {
                                Ok(x) => x,
                                Err(pn) => {
                                    rep.violate(fail("C17", "panic", format!("type={};status={:?}", ty, st), format!("{}: recv panicked: {}", name, pn.message), json!({"prefix": log})));
                                    continue;
                                }
                            };
                            let witness = json!({"cell": name, "prefix": log, "frame_hex": frame.iter().map(|b| format!("{:02x}", b)).collect::<String>(), "events": evs_short(&evs), "consumed": n});
                            let forbidden = forbidden_for(role, ver, ty);
                            let established_handshake = st == Status::Cd && ((ty == 1 && !as_client) || (ty == 2 && as_client)) && !forbidden;
                            if forbidden || established_handshake {
                                let rule = if forbidden { "H1-never-sendable-kind-is-protocol-error" } else { "H2-connect-connack-on-established-connection" };
                                rep.hit(rule);
                                let has_err = evs.iter().any(|e| e.is_error());
                                let delivered = evs.iter().any(|e| matches!(e, Ev::Recv { .. }));
                                // (a second CONNECT, however malformed, is never answered like a first one: no CONNACK on an
                                // established connection - MQTT-3.2.0-2)
                                let responded = (forbidden && evs.iter().any(|e| matches!(e, Ev::Send { .. }))) || evs.iter().any(|e| matches!(e, Ev::Send { pkt: Pkt::Connack { .. }, .. }));
                                let after = session_view(&mut c);
                                let dafter = c.digest();
                                // "reported as a protocol error": the error kind, and what the library tells the peer about it
                                // (judged for the second handshake packet, which the statement calls a protocol error by name; a type
                                // nibble that is no packet kind at all may as well be reported as malformed)
                                let wrong_kind = established_handshake && !empty_body && evs.iter().any(|e| matches!(e, Ev::Error(k) if k != "ProtocolError"));
                                let wrong_code = evs.iter().find_map(|e| if let Ev::Send { pkt: Pkt::Disconnect { code, .. }, .. } = e { Some(*code) } else { None }).filter(|c| established_handshake && !empty_body && *c != Some(0x82));
                                if !has_err || delivered || responded {
                                    rep.violate(fail("C17", rule, format!("role={:?};ver={:?};status={:?};type={};err={};delivered={};responded={}", role, ver, st, ty, has_err, delivered, responded), format!("{}: events {}", name, evs_short(&evs)), witness.clone()));
                                } else if wrong_kind || wrong_code.is_some() {
                                    rep.violate(fail("C17", rule, format!("role={:?};ver={:?};status={:?};type={};reported_as_other_error=1", role, ver, st, ty), format!("{}: not reported as a protocol error (error events / DISCONNECT reason code): {}", name, evs_short(&evs)), witness.clone()));
                                } else if before != after {
                                    rep.violate(fail("C17", rule, format!("role={:?};ver={:?};status={:?};type={};session_changed=1", role, ver, st, ty), format!("{}: session state changed: {} -> {}", name, before, after), witness.clone()));
                                } else if forbidden && dbefore != dafter {
                                    rep.violate(fail("C17", rule, format!("role={:?};ver={:?};status={:?};type={};digest_changed=1", role, ver, st, ty), format!("{}: object state changed by a packet that is never acted upon:\n before {}\n after  {}", name, dbefore.unwrap_or_default(), dafter.unwrap_or_default()), witness.clone()));
                                }
                            } else {
                                rep.count("cells_receivable");
                            }
                        }
                    }
                }
            }
        }
    }
    // H2 over the handshake packet's own contents: whatever a second CONNACK / CONNECT says (reason code, session
    // present, clean start, properties that would re-negotiate limits), it is an error, is not delivered, and the
    // session is left alone
    for (role, as_client) in paths {
        for ver in [Ver::V311, Ver::V5] {
            for idw in [2usize, 4] {
                let mut variants: Vec<Pkt> = Vec::new();
                if as_client {
                    let codes: Vec<u8> = if ver == Ver::V311 { (0..=5).collect() } else { vec![0x00, 0x80, 0x81, 0x82, 0x83, 0x84, 0x85, 0x86, 0x87, 0x88, 0x89, 0x8A, 0x8C, 0x90, 0x95, 0x97, 0x99, 0x9A, 0x9B, 0x9C, 0x9D, 0x9F] };
                    let prop_sets: Vec<Vec<Prop>> = if ver == Ver::V5 { vec![vec![], vec![p_u16(33, 1)], vec![p_u16(34, 3)], vec![p_u16(19, 7)], vec![p_u32(39, 20)], vec![p_u32(P_SEI, 0)], vec![p_str(18, "x")]] } else { vec![vec![]] };
                    for code in codes {
                        for sp in [false, true] {
                            for props in prop_sets.iter() {
                                variants.push(Pkt::Connack { ver, sp, code, props: props.clone() });
                            }
                        }
                    }
                } else {
                    let prop_sets: Vec<Vec<Prop>> = if ver == Ver::V5 { vec![vec![], vec![p_u16(33, 1)], vec![p_u16(34, 3)], vec![p_u32(39, 20)], vec![p_u32(P_SEI, 0)], vec![p_u32(P_SEI, 100)]] } else { vec![vec![]] };
                    for clean in [false, true] {
                        for keep_alive in [0u16, 1, 60] {
                            for props in prop_sets.iter() {
                                for cid in ["c", "other", ""] {
                                    if cid.is_empty() && !clean && ver == Ver::V311 {
                                        continue;
                                    }
                                    variants.push(Pkt::Connect { ver, clean, keep_alive, client_id: cid.as_bytes().to_vec(), will: None, user: None, pass: None, props: props.clone() });
                                }
                            }
                        }
                    }
                }
                // (frames: every well-formed variant, plus - server path - second CONNECTs the codec refuses: they are
                // still a CONNECT on an established connection, so an error, no delivery, no CONNACK, session untouched;
                // which error kind names it is left open for those)
                let mut frames: Vec<(Pkt, Vec<u8>, Option<&'static str>)> = variants.into_iter().map(|v| { let f = rc::encode(&v, idw); (v, f, None) }).collect();
                if !as_client {
                    let base = connect_pkt(ver, false);
                    let good = rc::encode(&base, idw);
                    let mut reserved = good.clone();
                    reserved[9] |= 1;
                    let mut name_bad = good.clone();
                    name_bad[4] = b'X';
                    let cut = vec![0x10, 5, 0, 4, b'M', b'Q', b'T'];
                    let mut short_id = good.clone();
                    let l = short_id.len();
                    short_id[l - 2] = 0xff;
                    for (f, what) in [(reserved, "reserved-flag"), (name_bad, "protocol-name"), (cut, "cut-body"), (short_id, "client-id-length")] {
                        frames.push((base.clone(), f, Some(what)));
                    }
                }
                for (v, frame, malformed) in frames {
                    let Some((mut c, log)) = primed(role, idw, ver, as_client, Status::Cd) else { continue };
                    let name = format!("role={:?}/{} ver={:?} status=Cd second handshake packet {}{} idw={}", role, if as_client { "client-path" } else { "server-path" }, ver, v.short(), malformed.map(|m| format!(" malformed({})", m)).unwrap_or_default(), idw);
                    rep.evaluations += 1;
                    rep.distinct_case(name.as_bytes());
                    let before = session_view(&mut c);
                    let (evs, n) = match c.recv(&frame) {
                        Ok(x) => x,
                        Err(pn) => {
                            rep.violate(fail("C17", "panic", "second-handshake".into(), format!("{}: recv panicked: {}", name, pn.message), json!({"prefix": log})));
                            continue;
                        }
                    };
                    let rule = "H2-connect-connack-on-established-connection";
                    rep.hit(rule);
                    let witness = json!({"cell": name, "prefix": log, "frame_hex": frame.iter().map(|b| format!("{:02x}", b)).collect::<String>(), "events": evs_short(&evs), "consumed": n});
                    let has_err = evs.iter().any(|e| e.is_error());
                    let delivered = evs.iter().any(|e| matches!(e, Ev::Recv { .. }));
                    let after = session_view(&mut c);
                    let code_class = match &v {
                        Pkt::Connack { code, .. } => if *code == 0 { "success" } else { "failure" },
                        _ => "connect",
                    };
                    let wrong_kind = malformed.is_none() && evs.iter().any(|e| matches!(e, Ev::Error(k) if k != "ProtocolError"));
                    let wrong_code = evs.iter().find_map(|e| if let Ev::Send { pkt: Pkt::Disconnect { code, .. }, .. } = e { Some(*code) } else { None }).filter(|c| malformed.is_none() && *c != Some(0x82));
                    let code_class = if malformed.is_some() { "malformed-connect" } else { code_class };
                    let delivered = delivered || evs.iter().any(|e| matches!(e, Ev::Send { pkt: Pkt::Connack { .. }, .. }));
                    if !has_err || delivered {
                        rep.violate(fail("C17", rule, format!("role={:?};ver={:?};variant={};err={};delivered={}", role, ver, code_class, has_err, delivered), format!("{}: events {}", name, evs_short(&evs)), witness));
                    } else if wrong_kind || wrong_code.is_some() {
                        rep.violate(fail("C17", rule, format!("role={:?};ver={:?};variant={};reported_as_other_error=1", role, ver, code_class), format!("{}: not reported as a protocol error (error events / DISCONNECT reason code): {}", name, evs_short(&evs)), witness));
                    } else if before != after {
                        rep.violate(fail("C17", rule, format!("role={:?};ver={:?};variant={};session_changed=1", role, ver, code_class), format!("{}: session state changed: {} -> {}", name, before, after), witness));
                    }
                }
            }
        }
    }
    // Undetermined server: first packet
    for role in [Role::Server, Role::Any] {
        for idw in [2usize, 4] {
            // every value of the protocol-level byte, in a CONNECT body of either layout
            for (level, body_ver) in (0u16..=255).flat_map(|l| [(l as u8, Ver::V311), (l as u8, Ver::V5)]) {
                if (level == 4 && body_ver == Ver::V5) || (level == 5 && body_ver == Ver::V311) {
                    // (a well-formed level with the other version's body is a malformed CONNECT of the adopted version: H6)
                    continue;
                }
                let mut c = new_conn(role, idw, LVer::Undetermined);
                let mut frame = rc::encode(&connect_pkt(body_ver, false), idw);
                frame[8] = level; // fixed header(2) + name(6) -> level byte
                rep.hit("H3-undetermined-adopts-version-from-first-connect");
                rep.evaluations += 1;
                rep.distinct_case(format!("undet {:?} {} {} {:?}", role, idw, level, body_ver).as_bytes());
                let evs = c.recv(&frame).map(|x| x.0).unwrap_or_default();
                let adopted = c.version();
                let want = match level {
                    4 => LVer::V311,
                    5 => LVer::V5,
                    _ => LVer::Undetermined,
                };
                let delivered = evs.iter().any(|e| matches!(e, Ev::Recv { pkt: Pkt::Connect { .. }, .. }));
                if adopted != want || delivered != (level == 4 || level == 5) || (!delivered && !evs.iter().any(|e| e.is_error())) {
                    rep.violate(fail("C17", "H3-undetermined-adopts-version-from-first-connect", format!("level={};adopted={:?}", level, adopted), format!("Undetermined {:?} server, CONNECT with protocol level {}: version now {:?}, events {}", role, level, adopted, evs_short(&evs)), json!({})));
                }
            }
            for (ty, fver) in (0u8..16).filter(|t| *t != 1).flat_map(|t| [(t, Ver::V5), (t, Ver::V311)]) {
                let mut c = new_conn(role, idw, LVer::Undetermined);
                let frame = minimal_frame(ty, fver, idw);
                rep.hit("H4-undetermined-rejects-other-first-packet");
                rep.evaluations += 1;
                rep.distinct_case(format!("undet-first {:?} {} {} {:?}", role, idw, ty, fver).as_bytes());
                let evs = c.recv(&frame).map(|x| x.0).unwrap_or_default();
                if c.version() != LVer::Undetermined || !evs.iter().any(|e| e.is_error()) || evs.iter().any(|e| matches!(e, Ev::Recv { .. } | Ev::Send { .. })) {
                    rep.violate(fail("C17", "H4-undetermined-rejects-other-first-packet", format!("type={}", ty), format!("Undetermined {:?} server, first packet of type {}: version {:?}, events {}", role, ty, c.version(), evs_short(&evs)), json!({})));
                }
            }
        }
    }
    // Undetermined server whose FIRST CONNECT (level 4 or 5) is refused by the codec: the version is adopted all
    // the same, and from then on it behaves like a server created with that version
    for role in [Role::Server, Role::Any] {
        for idw in [2usize, 4] {
            for ver in [Ver::V311, Ver::V5] {
                for (mname, mutate) in [
                    ("client-id-invalid-utf8", 0u8),
                    ("truncated-after-flags", 1),
                    ("reserved-flag-set", 2),
                    ("will-qos-3", 3),
                    ("well-formed", 4),
                ] {
                    let mut frame = rc::encode(&Pkt::Connect { ver, clean: true, keep_alive: 5, client_id: b"ab".to_vec(), will: None, user: None, pass: None, props: vec![] }, idw);
                    match mutate {
                        0 => {
                            let n = frame.len();
                            frame[n - 2] = 0xC3;
                            frame[n - 1] = 0x28;
                        }
                        1 => {
                            frame.truncate(2 + 6 + 1 + 1);
                            frame[1] = (frame.len() - 2) as u8;
                        }
                        2 => frame[9] |= 0x01,
                        3 => frame[9] |= 0x18,
                        _ => {}
                    }
                    let other = if ver == Ver::V5 { Ver::V311 } else { Ver::V5 };
                    let script: Vec<(String, Option<Vec<u8>>)> = vec![
                        (format!("first CONNECT {:?} {}", ver, mname), Some(frame.clone())),
                        ("notify_closed".into(), None),
                        (format!("CONNECT {:?} well-formed", other), Some(rc::encode(&connect_pkt(other, false), idw))),
                        ("notify_closed".into(), None),
                        (format!("CONNECT {:?} well-formed", ver), Some(rc::encode(&connect_pkt(ver, false), idw))),
                        ("PINGREQ".into(), Some(rc::encode(&Pkt::Pingreq { ver }, idw))),
                    ];
                    let run = |lv: LVer| -> (Vec<String>, LVer) {
                        let mut c = new_conn(role, idw, lv);
                        let mut out = Vec::new();
                        let mut after_first = LVer::Undetermined;
                        for (k, (name, bytes)) in script.iter().enumerate() {
                            let evs = match bytes {
                                Some(b) => {
                                    let mut all = Vec::new();
                                    let mut off = 0;
                                    while off < b.len() {
                                        match c.recv(&b[off..]) {
                                            Ok((e, n)) if n > 0 || !e.is_empty() => {
                                                off += n;
                                                all.extend(e);
                                            }
                                            _ => break,
                                        }
                                    }
                                    all
                                }
                                None => c.notify_closed().unwrap_or_default(),
                            };
                            if k == 0 {
                                after_first = c.version();
                            }
                            out.push(format!("{} => {}", name, evs_short(&normalise(&evs))));
                        }
                        (out, after_first)
                    };
                    let (tu, adopted) = run(LVer::Undetermined);
                    let (tf, _) = run(LVer::from_ver(ver));
                    rep.hit("H6-adoption-survives-a-refused-first-connect");
                    rep.evaluations += 1;
                    rep.distinct_case(format!("undet-refused {:?} {} {:?} {}", role, idw, ver, mname).as_bytes());
                    if adopted != LVer::from_ver(ver) || tu != tf {
                        let k = tu.iter().zip(tf.iter()).position(|(a, b)| a != b).unwrap_or(0);
                        rep.violate(fail(
                            "C17",
                            "H6-adoption-survives-a-refused-first-connect",
                            format!("first_connect={};adopted={:?}", mname, adopted),
                            format!("Undetermined {:?} server, first CONNECT of {:?} ({}): version afterwards {:?}; first difference to a {:?} server at step {}: `{}` vs `{}`", role, ver, mname, adopted, ver, k, tu.get(k).cloned().unwrap_or_default(), tf.get(k).cloned().unwrap_or_default()),
                            json!({"undetermined": tu, "fixed": tf}),
                        ));
                    }
                }
            }
        }
    }
    // trace equality Undetermined vs fixed
    let n = ctx.budget(300_000, 10_000_000);
    let twin = run_cases(ctx, 2, n, "", |i, seed, rep| {
        let mut r = Rng::new(seed ^ 0x17);
        let fo = *r.pick(&[Focus::General, Focus::Hostile, Focus::Store, Focus::Qos2In]);
        let mut sc = random_scenario(&mut r, fo, 15);
        sc.role = if r.bool() { Role::Server } else { Role::Any };
        sc.as_client = false;
        sc.ver = LVer::Undetermined;
        sc.connect_first = true;
        let mut sc2 = sc.clone();
        sc2.ver = LVer::from_ver(sc.speak);
        let mut a = Driver::new(sc.clone(), seed);
        let mut b = Driver::new(sc2, seed);
        a.path_flip = false;
        b.path_flip = false;
        let a = a.run();
        let b = b.run();
        rep.evaluations += 1;
        rep.api_calls += a.api_calls + b.api_calls;
        rep.hit("H5-undetermined-trace-equals-fixed-version");
        if a.nontrivial {
            rep.distinct_hash(a.shape);
        }
        let ta: Vec<String> = a.trace.iter().map(|s| format!("{} => {}", s.call, s.events)).collect();
        let tb: Vec<String> = b.trace.iter().map(|s| format!("{} => {}", s.call, s.events)).collect();
        if ta != tb {
            let k = ta.iter().zip(tb.iter()).position(|(x, y)| x != y).unwrap_or(ta.len().min(tb.len()));
            rep.violate(Violation {
                property: "C17".into(),
                rule: "H5-undetermined-trace-equals-fixed-version".into(),
                signature: "C17.H5-undetermined-trace-equals-fixed-version".into(),
                what: format!("an Undetermined server and a {:?} server diverge at step {}: `{}` vs `{}`", sc.speak, k, ta.get(k).cloned().unwrap_or_default(), tb.get(k).cloned().unwrap_or_default()),
                witness: json!({"scenario": crate::driver::scenario_json(&sc), "undetermined": ta, "fixed": tb}),
                case: (2, i),
            });
        }
        if i % 4999 == 1 {
            rep.sample(json!({"twin_history": ta}), 2);
        }
    });
    rep.merge(twin);
    rep.assumptions.push("receive-gating table = DESIGN Appendix B".into());
    let _ = BTreeSet::<u8>::new();
    if ctx.replay.is_none() {
        rep.require_hits(&[("H1-never-sendable-kind-is-protocol-error", 300), ("H2-connect-connack-on-established-connection", 500), ("H3-undetermined-adopts-version-from-first-connect", 8), ("H5-undetermined-trace-equals-fixed-version", 1000)]);
    }
    rep
}
