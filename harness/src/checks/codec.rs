//! C02 (round-trip identities) and C03 (agreement with the independent reference codec).

use crate::apkt::*;
use crate::bridge::{self, BuildErr, Pid};
use crate::gen::{self, GenCfg};
use crate::guard;
use crate::libcodec::*;
use crate::refcodec as rc;
use crate::report::{run_cases, Ctx, Report, Violation};
use crate::rng::Rng;
use mqtt_protocol_core::mqtt::packet::{GenericPacket, GenericPacketTrait, GenericStorePacket};
use mqtt_protocol_core::mqtt::result_code as lrc;
use serde_json::json;

fn hex(b: &[u8]) -> String {
    let mut s = String::new();
    for (i, x) in b.iter().enumerate() {
        if i >= 96 {
            s.push_str(&format!("..(+{} bytes)", b.len() - i));
            break;
        }
        s.push_str(&format!("{:02x}", x));
    }
    s
}
fn first_diff(a: &[u8], b: &[u8]) -> usize {
    a.iter().zip(b.iter()).position(|(x, y)| x != y).unwrap_or(a.len().min(b.len()))
}

fn shape(p: &Pkt, idw: usize) -> Vec<u8> {
    // what makes two cases "the same": kind, version, id width, option presence, property id multiset,
    // length classes (<=boundary buckets) of strings / payload
    fn bucket(n: usize) -> u8 {
        match n {
            0 => 0,
            1..=11 => 1,
            12..=23 => 2,
            24..=47 => 3,
            48..=126 => 4,
            127..=128 => 5,
            129..=255 => 6,
            256..=16382 => 7,
            16383..=16384 => 8,
            _ => 9,
        }
    }
    let mut v = vec![p.kind().nibble(), p.ver() as u8, idw as u8];
    if let Some(ps) = p.props() {
        let mut ids: Vec<u8> = ps.iter().map(|x| x.id).collect();
        ids.sort();
        v.extend(ids);
    } else {
        v.push(0xFF);
    }
    match p {
        Pkt::Publish { qos, dup, retain, topic, payload, .. } => {
            v.extend([*qos, *dup as u8, *retain as u8, bucket(topic.len()), bucket(payload.len())]);
        }
        Pkt::Connect { will, user, pass, client_id, .. } => {
            v.extend([will.is_some() as u8, user.is_some() as u8, pass.is_some() as u8, bucket(client_id.len())]);
        }
        Pkt::Ack { code, props, .. } => v.extend([code.is_some() as u8, props.is_some() as u8]),
        Pkt::Disconnect { code, props, .. } | Pkt::Auth { code, props } => v.extend([code.is_some() as u8, props.is_some() as u8]),
        Pkt::Subscribe { entries, .. } => v.push(entries.len() as u8),
        _ => {}
    }
    v
}

/// discriminating attributes of a packet that separate known failing classes from everything else
fn sig_attrs(a: &Pkt) -> String {
    match a {
        Pkt::Connect { user, pass, .. } if user.is_none() && pass.is_some() => ";password_without_user_name=1".to_string(),
        _ => String::new(),
    }
}
fn with_err(mut v: Violation, e: &ParseErr) -> Violation {
    v.signature.push_str(&format!(";err={:?}", e));
    v
}

fn mk(prop: &str, rule: &str, a: &Pkt, idw: usize, detail: String, case: (u64, u64)) -> Violation {
    Violation {
        property: prop.into(),
        rule: rule.into(),
        signature: format!("{}.{}@kind={:?};ver={:?}{}", prop, rule, a.kind(), a.ver(), sig_attrs(a)),
        what: format!("{} (id width {}): {}", a.short(), idw, detail),
        witness: json!({"packet": a, "id_width": idw, "detail": detail}),
        case,
    }
}

/// All C02 + C03 identities for one abstract packet and one id type.
fn check_one<P: Pid>(a: &Pkt, which: &str, rep: &mut Report, case: (u64, u64)) {
    let idw = P::WIDTH;
    // every other case reaches the same field values through a permuted sequence of builder / setter calls with
    // overwritten decoy values: the packet is a function of its fields, not of the calls that set them
    let permuted = case.0 == 1 && (case.1 / 58) % 2 == 1;
    let _order = bridge::BuildOrder::set(if permuted { crate::rng::derive(0xB1D, case.0, case.1) | 1 } else { 0 });
    if permuted {
        rep.count("built_with_permuted_setter_order");
    }
    let built = guard::call(|| bridge::to_lib::<P>(a));
    let p: GenericPacket<P> = match built {
        Err(pn) => {
            rep.violate(mk(which, "builder-panicked", a, idw, pn.message, case));
            return;
        }
        Ok(Err(BuildErr::Lib(e))) => {
            // the builders refuse a packet my generator considers spec-conformant
            rep.count(&format!("builder_rejected[{:?} {:?} {}]", a.kind(), a.ver(), e));
            if which == "C03" {
                // no built packet, so the "bytes produced" clause has nothing to say; the parse clause
                // still applies to the spec-conformant encoding of these field values
                let refb = rc::encode(a, idw);
                rep.hit("W2-reference-encoding-parses-to-same-values");
                match guard::call(|| lib_parse_frame::<P>(&refb, a.ver())) {
                    Err(pn) => rep.violate(mk("C03", "parse-panicked", a, idw, pn.message, case)),
                    Ok(Err(e)) => rep.violate(with_err(mk("C03", "W2-reference-encoding-parses-to-same-values", a, idw, format!("library rejects the spec-conformant encoding: {:?}; bytes {}", e, hex(&refb)), case), &e)),
                    Ok(Ok((q, _, _))) => {
                        let qa = bridge::from_lib(&q);
                        if &qa != a {
                            rep.violate(mk("C03", "W2-reference-encoding-parses-to-same-values", a, idw, format!("accessors of the parsed packet read {}", qa.short()), case));
                        }
                    }
                }
            }
            return;
        }
        Ok(Err(BuildErr::Inexpressible(e))) => {
            rep.count(&format!("inexpressible[{}]", e));
            return;
        }
        Ok(Ok(p)) => p,
    };
    rep.api_calls += 1;
    let r = guard::call(|| {
        let bytes = lib_bytes(&p);
        let size = lib_size(&p);
        let cat = lib_buffers_concat(&p);
        (bytes, size, cat)
    });
    let (bytes, size, cat) = match r {
        Ok(x) => x,
        Err(pn) => {
            rep.violate(mk(which, "serialise-panicked", a, idw, pn.message, case));
            return;
        }
    };
    if which == "C02" {
        rep.hit("R1-size-equals-serialisation-length");
        if size != bytes.len() {
            rep.violate(mk("C02", "R1-size-equals-serialisation-length", a, idw, format!("size()={} but to_continuous_buffer() has {} bytes", size, bytes.len()), case));
            return;
        }
        rep.hit("R2-vectored-equals-contiguous");
        if cat != bytes {
            rep.violate(mk("C02", "R2-vectored-equals-contiguous", a, idw, format!("to_buffers() concat differs at offset {}: {} vs {}", first_diff(&cat, &bytes), hex(&cat), hex(&bytes)), case));
            return;
        }
        rep.hit("R3-remaining-length-on-wire");
        match rc::frame_at(&bytes) {
            rc::Framed::Frame { total, .. } if total == bytes.len() => {}
            other => {
                rep.violate(mk("C02", "R3-remaining-length-on-wire", a, idw, format!("Remaining Length field does not describe the {}-byte serialisation ({:?}): {}", bytes.len(), other, hex(&bytes)), case));
                return;
            }
        }
        // also minimal encoding of the remaining length
        if let Err(e) = rc::vbi_decode(&bytes[1..]) {
            rep.violate(mk("C02", "R3-remaining-length-on-wire", a, idw, format!("Remaining Length: {}", e), case));
            return;
        }
        // parse back
        rep.hit("R4-parse-yields-equal-packet");
        let parsed = guard::call(|| lib_parse_frame::<P>(&bytes, a.ver()));
        match parsed {
            Err(pn) => {
                rep.violate(mk("C02", "parse-panicked", a, idw, pn.message, case));
                return;
            }
            Ok(Err(e)) => {
                rep.violate(mk("C02", "R4-parse-yields-equal-packet", a, idw, format!("parse of own serialisation failed: {:?}; bytes {}", e, hex(&bytes)), case));
                return;
            }
            Ok(Ok((q, consumed, body_len))) => {
                rep.hit("R5-consumed-equals-body");
                if consumed != body_len {
                    rep.violate(mk("C02", "R5-consumed-equals-body", a, idw, format!("parse consumed {} of {} body bytes", consumed, body_len), case));
                    return;
                }
                if q != p {
                    let qa = bridge::from_lib(&q);
                    rep.violate(mk("C02", "R4-parse-yields-equal-packet", a, idw, format!("re-parsed packet != built packet; re-parsed reads as {}", qa.short()), case));
                    return;
                }
                let b2 = lib_bytes(&q);
                if b2 != bytes || lib_size(&q) != size {
                    rep.violate(mk("C02", "R4-parse-yields-equal-packet", a, idw, "re-parsed packet serialises differently".into(), case));
                    return;
                }
            }
        }
        // store-packet wrapper
        let store: Option<GenericStorePacket<P>> = match &p {
            GenericPacket::V3_1_1Publish(x) => x.clone().try_into().ok(),
            GenericPacket::V5_0Publish(x) => x.clone().try_into().ok(),
            GenericPacket::V3_1_1Pubrel(x) => x.clone().try_into().ok(),
            GenericPacket::V5_0Pubrel(x) => x.clone().try_into().ok(),
            _ => None,
        };
        if let Some(sp) = store {
            rep.hit("R6-store-wrapper-agrees");
            let sb = sp.to_continuous_buffer();
            let mut sc = Vec::new();
            for s in sp.to_buffers() {
                sc.extend_from_slice(&s);
            }
            if sb != bytes || sp.size() != size || sc != bytes {
                rep.violate(mk("C02", "R6-store-wrapper-agrees", a, idw, "GenericStorePacket size/bytes differ from the packet's".into(), case));
                return;
            }
            let back: GenericPacket<P> = sp.into();
            if back != p {
                rep.violate(mk("C02", "R6-store-wrapper-agrees", a, idw, "GenericStorePacket -> GenericPacket changed the packet".into(), case));
                return;
            }
        }
    } else {
        // C03
        let refb = rc::encode(a, idw);
        rep.hit("W1-bytes-equal-reference-encoding");
        if bytes != refb {
            let d = first_diff(&bytes, &refb);
            rep.violate(mk("C03", "W1-bytes-equal-reference-encoding", a, idw, format!("library bytes differ from the reference encoding at offset {}: lib {} / ref {}", d, hex(&bytes[d.saturating_sub(4)..]), hex(&refb[d.saturating_sub(4)..])), case));
            return;
        }
        rep.hit("W2-reference-encoding-parses-to-same-values");
        match guard::call(|| lib_parse_frame::<P>(&refb, a.ver())) {
            Err(pn) => {
                rep.violate(mk("C03", "parse-panicked", a, idw, pn.message, case));
                return;
            }
            Ok(Err(e)) => {
                rep.violate(with_err(mk("C03", "W2-reference-encoding-parses-to-same-values", a, idw, format!("library rejects the spec-conformant encoding: {:?}; bytes {}", e, hex(&refb)), case), &e));
                return;
            }
            Ok(Ok((q, _, _))) => {
                let qa = bridge::from_lib(&q);
                if &qa != a {
                    rep.violate(mk("C03", "W2-reference-encoding-parses-to-same-values", a, idw, format!("accessors of the parsed packet read {}", qa.short()), case));
                    return;
                }
            }
        }
        rep.hit("W3-reference-decoder-reads-library-bytes");
        match rc::decode(&bytes, a.ver(), idw) {
            Ok(d) => {
                if &d != a {
                    rep.violate(mk("C03", "W3-reference-decoder-reads-library-bytes", a, idw, format!("reference decoder reads {}", d.short()), case));
                }
            }
            Err(e) => {
                rep.violate(mk("C03", "W3-reference-decoder-reads-library-bytes", a, idw, format!("reference decoder rejects library bytes: {}", e), case));
            }
        }
    }
}

fn sample_json(a: &Pkt, idw: usize) -> serde_json::Value {
    let b = rc::encode(a, idw);
    json!({"packet": a.short(), "id_width": idw, "reference_encoding_hex": hex(&b), "bytes": b.len()})
}

// ---- PUBLISH helper methods that recompute cached lengths (C02) -------------------------------------

fn publish_helpers<P: Pid>(r: &mut Rng, cfg: &GenCfg, rep: &mut Report, case: (u64, u64)) {
    use mqtt_protocol_core::mqtt::packet::v5_0 as v5;
    let a = gen::gen_packet(r, cfg, Kind::Publish, Ver::V5);
    let Ok(GenericPacket::V5_0Publish(p)) = bridge::to_lib::<P>(&a) else { return };
    let Pkt::Publish { topic, props, .. } = &a else { return };
    let has_alias = props.iter().any(|x| x.id == P_TA);
    let alias = *r.pick(&[1u16, 255, 256, 65535]);
    let new_topic = String::from_utf8(gen::gen_topic(r, cfg)).unwrap();
    let check = |name: &str, q: &v5::GenericPublish<P>, want: &Pkt, rep: &mut Report| {
        rep.hit("R8-publish-helpers-keep-lengths-consistent");
        let bytes = q.to_continuous_buffer();
        let mut cat = Vec::new();
        for s in q.to_buffers() {
            cat.extend_from_slice(&s);
        }
        let refb = rc::encode(want, P::WIDTH);
        if q.size() != bytes.len() || cat != bytes || bytes != refb {
            rep.violate(mk(
                "C02",
                "R8-publish-helpers-keep-lengths-consistent",
                &a,
                P::WIDTH,
                format!("after {}: size()={} bytes={} vectored={} expected {} bytes; first diff vs expected at {}", name, q.size(), bytes.len(), cat.len(), refb.len(), first_diff(&bytes, &refb)),
                case,
            ));
            return;
        }
        match lib_parse_frame::<P>(&bytes, Ver::V5) {
            Ok((GenericPacket::V5_0Publish(back), n, bl)) => {
                if n != bl || back.to_continuous_buffer() != bytes || bridge::from_lib(&GenericPacket::<P>::V5_0Publish(back)) != *want {
                    rep.violate(mk("C02", "R8-publish-helpers-keep-lengths-consistent", &a, P::WIDTH, format!("after {}: re-parse differs", name), case));
                }
            }
            other => {
                rep.violate(mk("C02", "R8-publish-helpers-keep-lengths-consistent", &a, P::WIDTH, format!("after {}: re-parse failed: {:?}", name, other.err()), case));
            }
        }
    };
    let without_alias: Vec<Prop> = props.iter().filter(|x| x.id != P_TA).cloned().collect();
    let with = |t: Vec<u8>, ps: Vec<Prop>, dup: Option<bool>| -> Pkt {
        let mut w = a.clone();
        if let Pkt::Publish { topic, props, dup: d, .. } = &mut w {
            *topic = t;
            *props = ps;
            if let Some(x) = dup {
                *d = x;
            }
        }
        w
    };
    let res = guard::call(|| {
        // remove_topic_alias (used by the library only on packets that carry their topic: an empty
        // topic without alias is not a packet)
        if !topic.is_empty() {
            let q = p.clone().remove_topic_alias();
            check("remove_topic_alias", &q, &with(topic.clone(), without_alias.clone(), None), rep);
        }
        // remove_topic_alias_add_topic
        if let Ok(q) = p.clone().remove_topic_alias_add_topic(new_topic.clone()) {
            check("remove_topic_alias_add_topic", &q, &with(new_topic.clone().into_bytes(), without_alias.clone(), None), rep);
        }
        // add_topic_alias (only meaningful without one; the library appends)
        if !has_alias {
            let q = p.clone().add_topic_alias(alias);
            let mut ps = props.clone();
            ps.push(p_u16(P_TA, alias));
            check("add_topic_alias", &q, &with(topic.clone(), ps.clone(), None), rep);
            let q = p.clone().remove_topic_add_topic_alias(alias);
            check("remove_topic_add_topic_alias", &q, &with(vec![], ps, None), rep);
        }
        // add_extracted_topic_name (only valid on an empty topic)
        if topic.is_empty() {
            if let Ok(q) = p.clone().add_extracted_topic_name(&new_topic) {
                check("add_extracted_topic_name", &q, &with(new_topic.clone().into_bytes(), props.clone(), None), rep);
            }
        }
        // set_dup
        let Pkt::Publish { qos, .. } = &a else { return };
        if *qos > 0 {
            let q = p.clone().set_dup(true);
            check("set_dup(true)", &q, &with(topic.clone(), props.clone(), Some(true)), rep);
            let q = p.clone().set_dup(false);
            check("set_dup(false)", &q, &with(topic.clone(), props.clone(), Some(false)), rep);
        }
    });
    if let Err(pn) = res {
        rep.violate(mk("C02", "helper-panicked", &a, P::WIDTH, pn.message, case));
    }
    rep.evaluations += 1;
}

fn run_codec(ctx: &Ctx, which: &'static str) -> Report {
    let kinds = gen::all_kind_versions();
    let n = ctx.budget(1_200_000, 60_000_000);
    let rule = if which == "C02" {
        "abstract packets drawn per (kind x version x id width) from the boundary-biased generator (all 29 kinds, optional fields present/absent, 0..n properties allowed in the location, string/binary/payload lengths on both sides of 127/128, 16383/16384, 65535 and the SSO thresholds), built through the public builders, then: size()==len, vectored==contiguous, Remaining Length field, parse(own bytes)==packet with consumed==body, store wrapper, and the v5 PUBLISH helper methods. distinct = distinct (kind, version, id width, option presence, property-id multiset, length buckets)"
    } else {
        "same generator; library bytes compared byte-for-byte with the independent reference encoder, the reference encoding parsed by the library and read back through accessors, library bytes decoded by the reference decoder; plus exhaustive byte enumeration of every reason-code enum, PropertyId and the fixed-header nibbles. distinct = distinct (kind, version, id width, option presence, property-id multiset, length buckets)"
    };
    let kinds_ref = &kinds;
    let mut total = run_cases(ctx, 1, n, rule, |i, seed, rep| {
        let mut r = Rng::new(seed);
        let (k, v) = kinds_ref[(i as usize) % kinds_ref.len()];
        let idw = if (i / kinds_ref.len() as u64) % 2 == 0 { 2 } else { 4 };
        let cfg = GenCfg { big_pm: 25, huge_pm: if ctx.tier == crate::report::Tier::Thorough { 1 } else { 0 }, idw };
        let a = gen::gen_packet(&mut r, &cfg, k, v);
        rep.evaluations += 1;
        rep.distinct_case(&shape(&a, idw));
        if i < 29 * 2 && (i % 13 == 0) {
            rep.sample(sample_json(&a, idw), 6);
        }
        rep.count(&format!("packets[{:?} {:?}]", k, v));
        if idw == 2 {
            check_one::<u16>(&a, which, rep, (1, i));
        } else {
            check_one::<u32>(&a, which, rep, (1, i));
        }
    });
    if which == "C02" {
        let m = ctx.budget(150_000, 6_000_000);
        let r2 = run_cases(ctx, 2, m, "", |i, seed, rep| {
            let mut r = Rng::new(seed);
            let cfg = GenCfg { big_pm: 25, huge_pm: 0, idw: if i % 2 == 0 { 2 } else { 4 } };
            if i % 2 == 0 {
                publish_helpers::<u16>(&mut r, &cfg, rep, (2, i));
            } else {
                publish_helpers::<u32>(&mut r, &cfg, rep, (2, i));
            }
        });
        total.merge(r2);
        // directed: exact length boundaries for the three length-carrying places of a v5 PUBLISH
        let r3 = run_cases(ctx, 3, 1, "", |_, _, rep| directed_boundaries(rep));
        total.merge(r3);
        let r4 = run_cases(ctx, 4, 1, "", |_, _, rep| builder_surface(rep));
        total.merge(r4);
    } else {
        let r2 = run_cases(ctx, 2, 1, "", |_, _, rep| enum_tables(rep));
        total.merge(r2);
    }
    total.assumptions.push("the generator's notion of 'spec-conformant' and the reference codec are my reading of OASIS MQTT 3.1.1 / 5.0".into());
    total.assumptions.push("strings never contain U+0000 (both specs forbid it; the library does not check it; no property claims it)".into());
    if ctx.replay.is_none() {
        if which == "C02" {
            total.require_hits(&[("R1-size-equals-serialisation-length", 1000), ("R4-parse-yields-equal-packet", 1000), ("R6-store-wrapper-agrees", 100), ("R8-publish-helpers-keep-lengths-consistent", 1000)]);
        } else {
            total.require_hits(&[("W1-bytes-equal-reference-encoding", 1000), ("W2-reference-encoding-parses-to-same-values", 1000), ("W3-reference-decoder-reads-library-bytes", 1000), ("W4-reason-code-enum-equals-spec-table", 11 * 256)]);
        }
    }
    total
}

/// builder states the abstract packets cannot express: whatever the builder accepts must survive encode -> parse
fn builder_surface(rep: &mut Report) {
    use mqtt_protocol_core::mqtt;
    use mqtt_protocol_core::mqtt::packet::v5_0 as v5;
    rep.hit("R9-builder-accepted-packet-round-trips");
    rep.evaluations += 1;
    // will properties without a will message
    let built = guard::call(|| {
        let wp: mqtt::packet::Property = mqtt::packet::WillDelayInterval::new(5).unwrap().into();
        v5::Connect::builder().client_id("c").unwrap().will_props(vec![wp]).build()
    });
    match built {
        Err(pn) => rep.violate(Violation { property: "C02".into(), rule: "R9-builder-accepted-packet-round-trips".into(), signature: "C02.R9-builder-accepted-packet-round-trips@case=will-props-without-will;panic".into(), what: pn.message, witness: serde_json::json!({}), case: (4, 0) }),
        Ok(Err(_)) => rep.count("builder_surface_rejected[will props without will]"),
        Ok(Ok(p)) => {
            let b = p.to_continuous_buffer();
            let reparsed = match rc::frame_at(&b) {
                rc::Framed::Frame { body_off, total, .. } if total == b.len() => v5::Connect::parse(&b[body_off..]).ok().map(|x| x.0),
                _ => None,
            };
            if p.size() != b.len() || reparsed.as_ref() != Some(&p) {
                rep.violate(Violation {
                    property: "C02".into(),
                    rule: "R9-builder-accepted-packet-round-trips".into(),
                    signature: "C02.R9-builder-accepted-packet-round-trips@case=will-props-without-will".into(),
                    what: format!("Connect::builder().will_props([WillDelayInterval]) without will_message() builds a packet (size {} / {} bytes) whose own bytes parse to {}", p.size(), b.len(), if reparsed.is_some() { "a different packet (the will properties are gone)" } else { "an error" }),
                    witness: serde_json::json!({"bytes": hex(&b)}),
                    case: (4, 0),
                });
            }
        }
    }
}

/// every total length around the VBI boundaries for topic / properties / payload of a v5 PUBLISH,
/// and for the string length of every packet that is dominated by one string
fn directed_boundaries(rep: &mut Report) {
    let mut n = 0u64;
    for target in [126usize, 127, 128, 129, 16_382, 16_383, 16_384, 16_385, 2_097_150, 2_097_151, 2_097_152, 2_097_153] {
        for idw in [2usize, 4] {
            for qos in [0u8, 1] {
                // remaining length == target exactly, reached by the payload
                let topic = b"t".to_vec();
                let fixed = 2 + topic.len() + if qos > 0 { idw } else { 0 } + 1;
                if target < fixed {
                    continue;
                }
                let a = Pkt::Publish { ver: Ver::V5, dup: false, qos, retain: false, topic, id: if qos > 0 { Some(1) } else { None }, props: vec![], payload: vec![7; target - fixed] };
                assert_eq!(rc::encode(&a, idw).len(), 1 + rc::vbi_len(target as u32) + target);
                if idw == 2 {
                    check_one::<u16>(&a, "C02", rep, (3, 0));
                } else {
                    check_one::<u32>(&a, "C02", rep, (3, 0));
                }
                n += 1;
            }
        }
    }
    // property length == 127 / 128 / 16383 / 16384 exactly (user property value padded)
    for plen in [126usize, 127, 128, 129, 16_383, 16_384] {
        // user property: 1 id + 2+klen + 2+vlen
        let vlen = plen - 1 - 2 - 1 - 2;
        let props = vec![Prop { id: 38, val: PVal::Pair(b"k".to_vec(), vec![b'v'; vlen]) }];
        let cases = vec![
            Pkt::Publish { ver: Ver::V5, dup: false, qos: 0, retain: false, topic: b"t".to_vec(), id: None, props: props.clone(), payload: vec![] },
            Pkt::Connack { ver: Ver::V5, sp: false, code: 0, props: props.clone() },
            Pkt::Connect { ver: Ver::V5, clean: true, keep_alive: 0, client_id: vec![], will: None, user: None, pass: None, props: props.clone() },
            Pkt::Ack { ver: Ver::V5, kind: AckKind::Puback, id: 1, code: Some(0), props: Some(props.clone()) },
            Pkt::Disconnect { ver: Ver::V5, code: Some(0), props: Some(props.clone()) },
            Pkt::Subscribe { ver: Ver::V5, id: 1, props: props.clone(), entries: vec![(b"a".to_vec(), 0)] },
            Pkt::Suback { ver: Ver::V5, id: 1, props: props.clone(), codes: vec![0] },
            Pkt::Unsubscribe { ver: Ver::V5, id: 1, props: props.clone(), entries: vec![b"a".to_vec()] },
            Pkt::Unsuback { ver: Ver::V5, id: 1, props: props.clone(), codes: vec![0] },
        ];
        for a in cases {
            check_one::<u16>(&a, "C02", rep, (3, 0));
            check_one::<u32>(&a, "C02", rep, (3, 0));
            n += 2;
        }
    }
    rep.evaluations += n;
    rep.count_n("directed_boundary_packets", n);
}

/// C03: exhaustive byte enumeration of the numeric tables
fn enum_tables(rep: &mut Report) {
    macro_rules! table {
        ($name:expr, $t:ty, $spec:expr) => {{
            for b in 0..=255u8 {
                rep.hit("W4-reason-code-enum-equals-spec-table");
                let got = <$t>::try_from(b).ok();
                let want = $spec.contains(&b);
                let bad = match got {
                    Some(v) => !want || (v as u8) != b,
                    None => want,
                };
                if bad {
                    rep.violate(Violation {
                        property: "C03".into(),
                        rule: "W4-reason-code-enum-equals-spec-table".into(),
                        signature: format!("C03.W4-reason-code-enum-equals-spec-table@enum={}", $name),
                        what: format!("{}: byte {:#04x}: library accepts={} (as {:?}), specification table contains={}", $name, b, got.is_some(), got.map(|v| v as u8), want),
                        witness: json!({"enum": $name, "byte": b}),
                        case: (2, 0),
                    });
                }
            }
            rep.evaluations += 256;
        }};
    }
    table!("ConnectReturnCode", lrc::ConnectReturnCode, rc::CONNACK_V311);
    table!("SubackReturnCode", lrc::SubackReturnCode, rc::SUBACK_V311);
    table!("ConnectReasonCode", lrc::ConnectReasonCode, rc::CONNACK_V5);
    table!("DisconnectReasonCode", lrc::DisconnectReasonCode, rc::DISCONNECT_V5);
    table!("SubackReasonCode", lrc::SubackReasonCode, rc::SUBACK_V5);
    table!("UnsubackReasonCode", lrc::UnsubackReasonCode, rc::UNSUBACK_V5);
    table!("PubackReasonCode", lrc::PubackReasonCode, rc::PUBACK_V5);
    table!("PubrecReasonCode", lrc::PubrecReasonCode, rc::PUBREC_V5);
    table!("PubrelReasonCode", lrc::PubrelReasonCode, rc::PUBREL_V5);
    table!("PubcompReasonCode", lrc::PubcompReasonCode, rc::PUBCOMP_V5);
    table!("AuthReasonCode", lrc::AuthReasonCode, rc::AUTH_V5);
    // property identifiers: parse a minimal property of each id through Property::parse
    use mqtt_protocol_core::mqtt::packet::Property;
    for id in 0..=255u8 {
        rep.hit("W5-property-id-table");
        // value bytes long enough for any type: u32 / (len 0 string, len 0 string)
        let mut b = vec![id];
        match prop_type(id) {
            Some(PType::Byte) => b.push(1),
            Some(PType::U16) => b.extend([0, 1]),
            Some(PType::U32) => b.extend([0, 0, 0, 1]),
            Some(PType::Vbi) => b.push(1),
            Some(PType::Str) | Some(PType::Bin) => b.extend([0, 1, b'x']),
            Some(PType::Pair) => b.extend([0, 1, b'k', 0, 1, b'v']),
            None => b.extend([0, 0, 0, 0, 0, 0]),
        }
        let got = guard::call(|| Property::parse(&b));
        let ok = match (&got, prop_type(id)) {
            (Ok(Ok((p, n))), Some(_)) => *n == b.len() && p.id().as_u8() == id && crate::bridge::prop_from_lib(p).id == id && {
                let mut enc = Vec::new();
                rc::encode_prop(&crate::bridge::prop_from_lib(p), &mut enc);
                enc == b && p.to_continuous_buffer() == b
            },
            (Ok(Err(_)), None) => true,
            _ => false,
        };
        if !ok {
            rep.violate(Violation {
                property: "C03".into(),
                rule: "W5-property-id-table".into(),
                signature: "C03.W5-property-id-table".into(),
                what: format!("property id {} ({}): Property::parse({}) -> {:?}; specification type {:?}", id, prop_name(id), hex(&b), got.map(|r| r.map(|(p, n)| (format!("{:?}", p.id()), n)).map_err(|e| format!("{:?}", e))).map_err(|p| p.message), prop_type(id)),
                witness: json!({"id": id}),
                case: (2, 0),
            });
        }
        rep.evaluations += 1;
    }
    // fixed header: type nibble and required flag bits of each kind as the library serialises them
    for (k, v) in gen::all_kind_versions() {
        rep.hit("W6-fixed-header-nibbles");
        let mut r = Rng::new(k.nibble() as u64);
        let a = gen::gen_packet(&mut r, &GenCfg { big_pm: 0, huge_pm: 0, idw: 2 }, k, v);
        if let Ok(p) = bridge::to_lib::<u16>(&a) {
            let b = lib_bytes(&p);
            let want_flags = match k {
                Kind::Pubrel | Kind::Subscribe | Kind::Unsubscribe => 2u8,
                Kind::Publish => b[0] & 0x0F,
                _ => 0,
            };
            if b[0] >> 4 != k.nibble() || b[0] & 0x0F != want_flags {
                rep.violate(mk("C03", "W6-fixed-header-nibbles", &a, 2, format!("first byte {:#04x}", b[0]), (2, 0)));
            }
        }
        rep.evaluations += 1;
    }
}

pub fn run_c02(ctx: &Ctx) -> Report {
    run_codec(ctx, "C02")
}
pub fn run_c03(ctx: &Ctx) -> Report {
    run_codec(ctx, "C03")
}

/// small single-threaded workload for the Miri shards: all C02 and C03 identities on `n` packets
pub fn miri_workload(seed: u64, n: usize) -> Report {
    let mut rep = Report::new("miri shard: codec identities");
    let kinds = gen::all_kind_versions();
    let mut r = Rng::new(seed);
    for i in 0..n {
        let (k, v) = kinds[(seed as usize + i) % kinds.len()];
        let idw = if i % 2 == 0 { 2 } else { 4 };
        let cfg = GenCfg { big_pm: 0, huge_pm: 0, idw };
        let a = gen::gen_packet(&mut r, &cfg, k, v);
        rep.evaluations += 1;
        for which in ["C02", "C03"] {
            if idw == 2 {
                check_one::<u16>(&a, which, &mut rep, (0, i as u64));
            } else {
                check_one::<u32>(&a, which, &mut rep, (0, i as u64));
            }
        }
    }
    let cfg = GenCfg { big_pm: 0, huge_pm: 0, idw: 2 };
    publish_helpers::<u16>(&mut r, &cfg, &mut rep, (0, 0));
    rep
}
