//! C20 - the value allocator behaves as a set of free integers with smallest-first allocation.
//!
//! Oracle: a plain `BTreeSet` of used values (free = range minus used) + the representation
//! invariant (black-box half through `interval_count()`, hook half through `verif_intervals()`).
//! Workloads: (1) exhaustive DFS over all sequences of mutating operations up to a bound on small
//! ranges at the extremes of u8/u16/u32, with every query evaluated after every operation;
//! (2) long random sequences over wide ranges; (3) the same through `PacketIdManager`;
//! (4) `TopicAliasSend` (which embeds an allocator) against an LRU model.

use crate::guard;
use crate::report::{run_cases, Ctx, Report, Violation};
use crate::rng::Rng;
use mqtt_protocol_core::mqtt::connection::PacketIdManager;
use mqtt_protocol_core::mqtt::packet::TopicAliasSend;
use mqtt_protocol_core::mqtt::ValueAllocator;
use serde_json::json;
use std::collections::BTreeSet;

/// The library allocator behind a uniform interface (monomorphic impls: the harness does not
/// depend on num_traits).
pub trait AllocOps: Clone {
    fn new(lo: u64, hi: u64) -> Self;
    fn allocate(&mut self) -> Option<u64>;
    fn first_vacant(&self) -> Option<u64>;
    fn deallocate(&mut self, v: u64);
    fn use_value(&mut self, v: u64) -> bool;
    fn is_used(&self, v: u64) -> bool;
    fn clear(&mut self);
    fn interval_count(&self) -> usize;
    fn intervals(&self) -> Option<Vec<(u64, u64)>>;
}
macro_rules! alloc_ops {
    ($t:ty) => {
        impl AllocOps for ValueAllocator<$t> {
            fn new(lo: u64, hi: u64) -> Self {
                ValueAllocator::<$t>::new(lo as $t, hi as $t)
            }
            fn allocate(&mut self) -> Option<u64> {
                ValueAllocator::allocate(self).map(|v| v as u64)
            }
            fn first_vacant(&self) -> Option<u64> {
                ValueAllocator::first_vacant(self).map(|v| v as u64)
            }
            fn deallocate(&mut self, v: u64) {
                ValueAllocator::deallocate(self, v as $t)
            }
            fn use_value(&mut self, v: u64) -> bool {
                ValueAllocator::use_value(self, v as $t)
            }
            fn is_used(&self, v: u64) -> bool {
                ValueAllocator::is_used(self, v as $t)
            }
            fn clear(&mut self) {
                ValueAllocator::clear(self)
            }
            fn interval_count(&self) -> usize {
                ValueAllocator::interval_count(self)
            }
            fn intervals(&self) -> Option<Vec<(u64, u64)>> {
                #[cfg(feature = "hooks")]
                {
                    Some(self.verif_intervals().into_iter().map(|(a, b)| (a as u64, b as u64)).collect())
                }
                #[cfg(not(feature = "hooks"))]
                {
                    None
                }
            }
        }
    };
}
alloc_ops!(u8);
alloc_ops!(u16);
alloc_ops!(u32);

/// the same allocator over a SIGNED element type: the model's value v stands for the element v + T::MIN, so that the
/// whole range of the type (negative values, the crossing of zero, distances larger than T::MAX) is covered
macro_rules! alloc_ops_signed {
    ($name:ident, $t:ty, $off:expr) => {
        #[derive(Clone)]
        pub struct $name(ValueAllocator<$t>);
        impl $name {
            fn to_t(v: u64) -> $t {
                (v as i64 - $off) as $t
            }
            fn of_t(v: $t) -> u64 {
                (v as i64 + $off) as u64
            }
        }
        impl AllocOps for $name {
            fn new(lo: u64, hi: u64) -> Self {
                $name(ValueAllocator::<$t>::new(Self::to_t(lo), Self::to_t(hi)))
            }
            fn allocate(&mut self) -> Option<u64> {
                self.0.allocate().map(Self::of_t)
            }
            fn first_vacant(&self) -> Option<u64> {
                self.0.first_vacant().map(Self::of_t)
            }
            fn deallocate(&mut self, v: u64) {
                self.0.deallocate(Self::to_t(v))
            }
            fn use_value(&mut self, v: u64) -> bool {
                self.0.use_value(Self::to_t(v))
            }
            fn is_used(&self, v: u64) -> bool {
                self.0.is_used(Self::to_t(v))
            }
            fn clear(&mut self) {
                self.0.clear()
            }
            fn interval_count(&self) -> usize {
                self.0.interval_count()
            }
            fn intervals(&self) -> Option<Vec<(u64, u64)>> {
                #[cfg(feature = "hooks")]
                {
                    Some(self.0.verif_intervals().into_iter().map(|(a, b)| (Self::of_t(a), Self::of_t(b))).collect())
                }
                #[cfg(not(feature = "hooks"))]
                {
                    None
                }
            }
        }
    };
}
alloc_ops_signed!(SignedI8, i8, 128i64);
alloc_ops_signed!(SignedI16, i16, 32768i64);

#[derive(Clone, Copy, Debug, PartialEq, Eq)]
enum Op {
    Allocate,
    Use(u64),
    Release(u64),
    Clear,
}
impl Op {
    fn name(&self) -> &'static str {
        match self {
            Op::Allocate => "allocate",
            Op::Use(_) => "use_value",
            Op::Release(_) => "deallocate",
            Op::Clear => "clear",
        }
    }
}

/// set model: used values within [lo,hi]
#[derive(Clone)]
struct Model {
    lo: u64,
    hi: u64,
    used: BTreeSet<u64>,
}
impl Model {
    fn first_free(&self) -> Option<u64> {
        let mut c = self.lo;
        for u in &self.used {
            if *u == c {
                if c == self.hi {
                    return None;
                }
                c += 1;
            } else if *u > c {
                break;
            }
        }
        if c > self.hi {
            None
        } else {
            Some(c)
        }
    }
    fn is_free(&self, v: u64) -> bool {
        v >= self.lo && v <= self.hi && !self.used.contains(&v)
    }
    /// maximal runs of free values
    fn free_runs(&self) -> Vec<(u64, u64)> {
        let mut out = Vec::new();
        let mut start = self.lo;
        for u in &self.used {
            if *u > start {
                out.push((start, *u - 1));
            }
            if *u == u64::MAX {
                return out;
            }
            start = *u + 1;
        }
        if start <= self.hi {
            out.push((start, self.hi));
        }
        out
    }
}

struct Fail {
    rule: &'static str,
    detail: String,
}

/// apply one op to allocator and model, check its answer; then check all queries + invariant
fn step<A: AllocOps>(a: &mut A, m: &mut Model, op: Op, query_points: &[u64], rep: &mut Report) -> Result<(), Fail> {
    rep.api_calls += 1;
    match op {
        Op::Allocate => {
            let want = m.first_free();
            let got = guard::call(|| a.allocate()).map_err(|p| Fail { rule: "panic", detail: format!("allocate panicked: {}", p.message) })?;
            rep.hit("A1-allocate-smallest-free");
            if got != want {
                return Err(Fail { rule: "A1-allocate-smallest-free", detail: format!("allocate() = {:?}, model smallest free = {:?}", got, want) });
            }
            if let Some(v) = want {
                m.used.insert(v);
            }
        }
        Op::Use(v) => {
            let want = m.is_free(v);
            let got = guard::call(|| a.use_value(v)).map_err(|p| Fail { rule: "panic", detail: format!("use_value({}) panicked: {}", v, p.message) })?;
            rep.hit("A2-reserve-iff-free");
            if got != want {
                return Err(Fail { rule: "A2-reserve-iff-free", detail: format!("use_value({}) = {}, model says free = {}", v, got, want) });
            }
            if want {
                m.used.insert(v);
            }
        }
        Op::Release(v) if v < m.lo || v > m.hi => {
            // releasing a value that can never be handed out: the allocator may refuse by its range assertion (the call
            // then changes nothing) or ignore the call - but the value must not become free (all queries below)
            rep.hit("A10-release-out-of-range-frees-nothing");
            if guard::call(|| a.deallocate(v)).is_err() {
                rep.count("release_out_of_range_refused_by_assertion");
            }
        }
        Op::Release(v) => {
            if m.used.contains(&v) {
                rep.hit("A3-release-used");
            } else {
                rep.hit("A3-release-free-is-noop");
            }
            guard::call(|| a.deallocate(v)).map_err(|p| Fail {
                rule: "panic",
                detail: format!("deallocate({}) [{}] panicked: {}", v, if m.used.contains(&v) { "used" } else { "already free" }, p.message),
            })?;
            m.used.remove(&v);
        }
        Op::Clear => {
            rep.hit("A4-clear");
            guard::call(|| a.clear()).map_err(|p| Fail { rule: "panic", detail: format!("clear panicked: {}", p.message) })?;
            m.used.clear();
        }
    }
    check_queries(a, m, query_points, rep)
}

fn check_queries<A: AllocOps>(a: &A, m: &Model, query_points: &[u64], rep: &mut Report) -> Result<(), Fail> {
    // is_used for every query point (in range and just outside)
    for &v in query_points {
        let want = v >= m.lo && v <= m.hi && m.used.contains(&v);
        let got = guard::call(|| a.is_used(v)).map_err(|p| Fail { rule: "panic", detail: format!("is_used({}) panicked: {}", v, p.message) })?;
        if v < m.lo || v > m.hi {
            rep.hit("A5-out-of-range-not-used");
        } else {
            rep.hit("A6-is-used-iff-in-range-and-not-free");
        }
        if got != want {
            let rule = if v < m.lo || v > m.hi { "A5-out-of-range-not-used" } else { "A6-is-used-iff-in-range-and-not-free" };
            return Err(Fail { rule, detail: format!("is_used({}) = {}, model = {} (range {}..={})", v, got, want, m.lo, m.hi) });
        }
    }
    let fv = guard::call(|| a.first_vacant()).map_err(|p| Fail { rule: "panic", detail: format!("first_vacant panicked: {}", p.message) })?;
    rep.hit("A7-first-vacant");
    if fv != m.first_free() {
        return Err(Fail { rule: "A7-first-vacant", detail: format!("first_vacant() = {:?}, model = {:?}", fv, m.first_free()) });
    }
    // representation invariant, black-box half
    let runs = m.free_runs();
    rep.hit("A8-interval-count-equals-maximal-runs");
    let ic = a.interval_count();
    if ic != runs.len() {
        return Err(Fail {
            rule: "A8-interval-count-equals-maximal-runs",
            detail: format!("interval_count() = {}, maximal free runs of the model = {:?}", ic, runs),
        });
    }
    // hook half
    if let Some(iv) = a.intervals() {
        rep.hit("A9-intervals-sorted-disjoint-merged");
        if iv != runs {
            return Err(Fail {
                rule: "A9-intervals-sorted-disjoint-merged",
                detail: format!("pool intervals = {:?}, expected sorted maximal runs = {:?}", iv, runs),
            });
        }
    }
    Ok(())
}

fn viol(rule: &str, ty: &str, lo: u64, hi: u64, ops: &[Op], detail: String, case: (u64, u64)) -> Violation {
    let last = ops.last().map(|o| o.name()).unwrap_or("new");
    let class = if rule == "panic" {
        // keep the discriminating attributes: which op, on a used or free value, at type max or not
        let at_max = matches!(ops.last(), Some(Op::Release(v)) | Some(Op::Use(v)) if *v == hi);
        format!("C20.panic@op={};value_is_range_max={}", last, at_max)
    } else {
        format!("C20.{}@op={}", rule, last)
    };
    Violation {
        property: "C20".into(),
        rule: rule.into(),
        signature: class,
        what: format!("ValueAllocator<{}>::new({},{}) after {:?}: {}", ty, lo, hi, ops, detail),
        witness: json!({"type": ty, "range": [lo, hi], "ops": format!("{:?}", ops), "detail": detail}),
        case,
    }
}

/// DFS over all op sequences of exactly `depth` ops (called for depth = 1..=D: shortest witnesses first)
fn dfs<A: AllocOps>(
    ty: &str,
    a: &A,
    m: &Model,
    ops_alpha: &[Op],
    qp: &[u64],
    depth: usize,
    trail: &mut Vec<Op>,
    rep: &mut Report,
    case: (u64, u64),
    failed_sigs: &mut BTreeSet<String>,
) {
    for &op in ops_alpha {
        let mut a2 = a.clone();
        let mut m2 = m.clone();
        trail.push(op);
        // only the last operation of the sequence needs the full query sweep: the prefixes were
        // swept when they were enumerated as shorter sequences
        let r = if depth == 1 { step(&mut a2, &mut m2, op, qp, rep) } else { step(&mut a2, &mut m2, op, &[], rep) };
        match r {
            Ok(()) => {
                if depth == 1 {
                    rep.evaluations += 1;
                } else {
                    dfs(ty, &a2, &m2, ops_alpha, qp, depth - 1, trail, rep, case, failed_sigs);
                }
            }
            Err(f) => {
                rep.evaluations += 1;
                let v = viol(f.rule, ty, m.lo, m.hi, trail, f.detail, case);
                // the subtree below a failed step is tainted: do not descend
                if failed_sigs.insert(v.signature.clone()) {
                    rep.violate(v);
                }
            }
        }
        trail.pop();
    }
}

fn exhaustive<A: AllocOps + Send>(ty: &'static str, lo: u64, hi: u64, tmax: u64, depth: usize, case: (u64, u64)) -> Report {
    let mut rep = Report::new("");
    let mut alpha = vec![Op::Allocate, Op::Clear];
    for v in lo..=hi {
        alpha.push(Op::Use(v));
        alpha.push(Op::Release(v));
    }
    // reserving a value outside the range must fail (model: not free); releasing one must free nothing
    if lo > 0 {
        alpha.push(Op::Use(lo - 1));
        alpha.push(Op::Release(lo - 1));
    }
    if hi < tmax {
        alpha.push(Op::Use(hi + 1));
        alpha.push(Op::Release(hi + 1));
    }
    let mut qp: Vec<u64> = (lo..=hi).collect();
    if lo > 0 {
        qp.push(lo - 1);
    }
    if hi < tmax {
        qp.push(hi + 1);
    }
    qp.push(0);
    qp.push(tmax);
    qp.sort();
    qp.dedup();
    let a = match guard::call(|| A::new(lo, hi)) {
        Ok(a) => a,
        Err(p) => {
            rep.violate(viol("panic", ty, lo, hi, &[], format!("new panicked: {}", p.message), case));
            return rep;
        }
    };
    let m = Model { lo, hi, used: BTreeSet::new() };
    if let Err(f) = check_queries(&a, &m, &qp, &mut rep) {
        rep.violate(viol(f.rule, ty, lo, hi, &[], f.detail, case));
        return rep;
    }
    let mut trail = Vec::new();
    let mut failed = BTreeSet::new();
    for d in 1..=depth {
        dfs(ty, &a, &m, &alpha, &qp, d, &mut trail, &mut rep, case, &mut failed);
        if !failed.is_empty() {
            break; // shortest witnesses found; deeper levels would only repeat them
        }
    }
    rep.distinct_case(format!("{}:{}:{}:{}", ty, lo, hi, depth).as_bytes());
    rep.count_n(&format!("exhaustive_sequences[{} {}..={} depth<={} alphabet={}]", ty, lo, hi, depth, alpha.len()), rep.evaluations);
    rep
}

/// long runs of used values: the first `n` values of the whole range of the type are allocated, then single values are
/// released whose nearest free neighbour is up to `n` values away (for a signed element type that distance exceeds
/// T::MAX), then everything is drained from both ends inwards; queries after every release
fn far_neighbours<A: AllocOps>(ty: &'static str, tmax: u64, n: u64, case: (u64, u64), rep: &mut Report) {
    let (lo, hi) = (0u64, tmax);
    let mut a = match guard::call(|| A::new(lo, hi)) {
        Ok(a) => a,
        Err(p) => {
            rep.violate(viol("panic", ty, lo, hi, &[], format!("new panicked: {}", p.message), case));
            return;
        }
    };
    let mut m = Model { lo, hi, used: BTreeSet::new() };
    rep.evaluations += 1;
    rep.hit("A11-release-with-a-distant-free-neighbour");
    for k in 0..n {
        match guard::call(|| a.allocate()) {
            Ok(Some(v)) if v == k => {
                m.used.insert(v);
            }
            other => {
                rep.violate(viol("A1-allocate-smallest-free", ty, lo, hi, &[Op::Allocate], format!("allocate #{} on a fresh allocator returned {:?}", k, other.map_err(|p| p.message)), case));
                return;
            }
        }
    }
    rep.api_calls += n;
    let qp: Vec<u64> = vec![lo, lo + 1, n / 2, n.saturating_sub(2), n.saturating_sub(1), n.min(hi), hi];
    let mut order: Vec<u64> = vec![0, n - 1, n / 2, 1, n / 2 + 1, n / 2 - 1];
    order.dedup();
    for v in order {
        if !m.used.contains(&v) {
            continue;
        }
        if let Err(f) = step(&mut a, &mut m, Op::Release(v), &qp, rep) {
            rep.violate(viol(f.rule, ty, lo, hi, &[Op::Release(v)], format!("after allocating the first {} values of the range: {}", n, f.detail), case));
            return;
        }
    }
    // and the values come back smallest first
    for _ in 0..4 {
        if let Err(f) = step(&mut a, &mut m, Op::Allocate, &qp, rep) {
            rep.violate(viol(f.rule, ty, lo, hi, &[Op::Allocate], format!("after releasing scattered values of a run of {}: {}", n, f.detail), case));
            return;
        }
    }
    rep.distinct_case(format!("far {} {}", ty, n).as_bytes());
}

fn random_seq<A: AllocOps>(ty: &'static str, lo: u64, hi: u64, tmax: u64, nops: usize, seed: u64, case: (u64, u64), rep: &mut Report) {
    let mut r = Rng::new(seed);
    let mut a = match guard::call(|| A::new(lo, hi)) {
        Ok(a) => a,
        Err(p) => {
            rep.violate(viol("panic", ty, lo, hi, &[], format!("new panicked: {}", p.message), case));
            return;
        }
    };
    let mut m = Model { lo, hi, used: BTreeSet::new() };
    let mut trail: Vec<Op> = Vec::new();
    // a small pool of "interesting" values keeps collisions frequent
    let mut pool: Vec<u64> = vec![lo, hi, lo.saturating_add(1).min(hi), hi.saturating_sub(1).max(lo)];
    for _ in 0..6 {
        pool.push(r.range(lo, hi));
    }
    let mut shape_hash: u64 = 0xcbf29ce484222325;
    for _ in 0..nops {
        let pick_v = |r: &mut Rng, m: &Model, pool: &Vec<u64>| -> u64 {
            match r.below(10) {
                0..=4 => *r.pick(pool),
                5..=6 => m.used.iter().nth(r.usize(m.used.len().max(1)).min(m.used.len().saturating_sub(1))).copied().unwrap_or(lo),
                7 => {
                    let p = *r.pick(pool);
                    (p + 1).min(hi)
                }
                8 => {
                    let p = *r.pick(pool);
                    p.saturating_sub(1).max(lo)
                }
                _ => r.range(lo, hi),
            }
        };
        let op = match r.below(100) {
            0..=34 => Op::Allocate,
            35..=59 => Op::Use(pick_v(&mut r, &m, &pool)),
            60..=96 => Op::Release(pick_v(&mut r, &m, &pool)),
            97 => {
                let v = if r.bool() && lo > 0 { lo - 1 } else if hi < tmax { hi + 1 } else { lo };
                if r.bool() {
                    Op::Use(v)
                } else {
                    Op::Release(v)
                }
            }
            _ => Op::Clear,
        };
        if let Op::Allocate = op {
            if let Some(v) = m.first_free() {
                if pool.len() < 24 {
                    pool.push(v);
                }
            }
        }
        trail.push(op);
        if trail.len() > 40 {
            trail.remove(0);
        }
        let mut qp = vec![lo, hi, 0, tmax];
        if lo > 0 {
            qp.push(lo - 1);
        }
        if hi < tmax {
            qp.push(hi + 1);
        }
        if let Op::Use(v) | Op::Release(v) = op {
            qp.push(v);
            if v > lo {
                qp.push(v - 1);
            }
            if v < hi {
                qp.push(v + 1);
            }
        }
        shape_hash = (shape_hash ^ (m.free_runs().len() as u64 * 31 + op.name().len() as u64)).wrapping_mul(0x100000001b3);
        if let Err(f) = step(&mut a, &mut m, op, &qp, rep) {
            rep.violate(viol(f.rule, ty, lo, hi, &trail, format!("(last 40 ops shown) {}", f.detail), case));
            break;
        }
        let runs = m.free_runs().len();
        let e = rep.counters.entry("max_intervals_seen".into()).or_insert(0);
        if (runs as u64) > *e {
            *e = runs as u64;
        }
    }
    rep.evaluations += 1;
    rep.distinct_hash(shape_hash);
}

// ------------------------------------------------------------------------------------------------
// PacketIdManager and TopicAliasSend

fn pid_manager_seq(seed: u64, nops: usize, case: (u64, u64), rep: &mut Report) {
    let mut r = Rng::new(seed);
    let mut pm: PacketIdManager<u16> = PacketIdManager::new();
    let mut m = Model { lo: 1, hi: 65535, used: BTreeSet::new() };
    let mut trail: Vec<String> = Vec::new();
    let fail = |rule: &str, trail: &Vec<String>, d: String| Violation {
        property: "C20".into(),
        rule: rule.into(),
        signature: format!("C20.pidman-{}", rule),
        what: format!("PacketIdManager<u16> after {:?}: {}", trail, d),
        witness: json!({"ops": trail, "detail": d}),
        case,
    };
    let pool = [1u16, 2, 3, 65534, 65535, 0, 100];
    let mut h: u64 = 1469598103934665603;
    for _ in 0..nops {
        rep.api_calls += 1;
        let c = r.below(100);
        if c < 40 {
            let want = m.first_free();
            let got = guard::call(|| pm.acquire_unique_id());
            trail.push("acquire".into());
            rep.hit("A10-pidman-acquire");
            match got {
                Err(p) => {
                    rep.violate(fail("panic", &trail, p.message));
                    return;
                }
                Ok(g) => {
                    let g = g.ok().map(|v| v as u64);
                    if g != want {
                        rep.violate(fail("acquire", &trail, format!("got {:?} want {:?}", g, want)));
                        return;
                    }
                    if let Some(v) = want {
                        m.used.insert(v);
                    }
                }
            }
        } else if c < 65 {
            let v = *r.pick(&pool);
            let want = m.is_free(v as u64);
            trail.push(format!("register({})", v));
            rep.hit("A11-pidman-register");
            match guard::call(|| pm.register_id(v)) {
                Err(p) => {
                    rep.violate(fail("panic", &trail, p.message));
                    return;
                }
                Ok(g) => {
                    if g.is_ok() != want {
                        rep.violate(fail("register", &trail, format!("register_id({}) ok={} model free={}", v, g.is_ok(), want)));
                        return;
                    }
                    if want {
                        m.used.insert(v as u64);
                    }
                }
            }
        } else if c < 95 {
            // release only what is_used_id reports used, as every caller in the library does
            let v = *r.pick(&pool);
            trail.push(format!("is_used+release({})", v));
            rep.hit("A12-pidman-is-used");
            match guard::call(|| pm.is_used_id(v)) {
                Err(p) => {
                    rep.violate(fail("panic", &trail, p.message));
                    return;
                }
                Ok(u) => {
                    let want = m.used.contains(&(v as u64));
                    if u != want {
                        rep.violate(fail("is_used", &trail, format!("is_used_id({}) = {} model {}", v, u, want)));
                        return;
                    }
                    if u {
                        if let Err(p) = guard::call(|| pm.release_id(v)) {
                            rep.violate(fail("panic", &trail, p.message));
                            return;
                        }
                        m.used.remove(&(v as u64));
                    }
                }
            }
        } else {
            trail.push("clear".into());
            let _ = guard::call(|| pm.clear());
            m.used.clear();
        }
        h = (h ^ m.used.len() as u64).wrapping_mul(0x100000001b3);
        if trail.len() > 30 {
            trail.remove(0);
        }
    }
    rep.evaluations += 1;
    rep.distinct_hash(h);
}

fn topic_alias_send_seq(seed: u64, nops: usize, case: (u64, u64), rep: &mut Report) {
    let mut r = Rng::new(seed);
    let max = *r.pick(&[1u16, 2, 3, 4, 65535]);
    let mut t = TopicAliasSend::new(max);
    // model: LRU-ordered list of (alias, topic); front = least recently used
    let mut lru: Vec<(u16, String)> = Vec::new();
    let topics = ["a", "b", "c/d", "e"];
    let mut trail: Vec<String> = vec![format!("new({})", max)];
    let fail = |rule: &str, trail: &Vec<String>, d: String| Violation {
        property: "C20".into(),
        rule: rule.into(),
        signature: format!("C20.aliassend-{}", rule),
        what: format!("TopicAliasSend after {:?}: {}", trail, d),
        witness: json!({"ops": trail, "detail": d}),
        case,
    };
    let mut h: u64 = 99;
    for _ in 0..nops {
        rep.api_calls += 1;
        let alias = if max <= 4 { r.range(1, max as u64) as u16 } else { *r.pick(&[1u16, 2, 3, 65535, 65534]) };
        match r.below(4) {
            0 => {
                let topic = *r.pick(&topics);
                trail.push(format!("insert_or_update({:?},{})", topic, alias));
                if let Err(p) = guard::call(|| t.insert_or_update(topic, alias)) {
                    rep.violate(fail("panic", &trail, p.message));
                    return;
                }
                lru.retain(|(a, _)| *a != alias);
                lru.push((alias, topic.to_string()));
            }
            1 => {
                trail.push(format!("get({})", alias));
                let got = match guard::call(|| t.get(alias).map(|s| s.to_string())) {
                    Ok(g) => g,
                    Err(p) => {
                        rep.violate(fail("panic", &trail, p.message));
                        return;
                    }
                };
                let want = lru.iter().find(|(a, _)| *a == alias).map(|(_, s)| s.clone());
                if got != want {
                    rep.violate(fail("get", &trail, format!("get({}) = {:?}, model {:?}", alias, got, want)));
                    return;
                }
                if let Some(tp) = want {
                    lru.retain(|(a, _)| *a != alias);
                    lru.push((alias, tp));
                }
            }
            2 => {
                // the allocator inside: smallest vacant alias first, else least recently used
                trail.push("get_lru_alias".into());
                rep.hit("A13-aliassend-lru-uses-first-vacant");
                let got = match guard::call(|| t.get_lru_alias()) {
                    Ok(g) => g,
                    Err(p) => {
                        rep.violate(fail("panic", &trail, p.message));
                        return;
                    }
                };
                let used: BTreeSet<u16> = lru.iter().map(|(a, _)| *a).collect();
                let mut want = None;
                let mut c = 1u32;
                while c <= max as u32 && c <= 70000 {
                    if !used.contains(&(c as u16)) {
                        want = Some(c as u16);
                        break;
                    }
                    c += 1;
                    if c > 8 && used.len() < 8 {
                        // cannot happen: fewer than 8 used means a vacancy within 1..=8
                    }
                }
                let want = want.unwrap_or_else(|| lru.first().map(|(a, _)| *a).unwrap_or(1));
                if got != want {
                    rep.violate(fail("lru", &trail, format!("get_lru_alias() = {}, model {} (lru order {:?})", got, want, lru)));
                    return;
                }
            }
            _ => {
                let topic = *r.pick(&topics);
                trail.push(format!("find_by_topic({:?})", topic));
                let got = guard::call(|| t.find_by_topic(topic)).unwrap_or(None);
                // any alias currently bound to the topic is acceptable; none iff none bound
                let bound: Vec<u16> = lru.iter().filter(|(_, s)| s == topic).map(|(a, _)| *a).collect();
                let ok = match got {
                    None => bound.is_empty(),
                    Some(a) => bound.contains(&a),
                };
                if !ok {
                    rep.violate(fail("find", &trail, format!("find_by_topic({:?}) = {:?}, model bound aliases {:?}", topic, got, bound)));
                    return;
                }
            }
        }
        h = (h ^ lru.len() as u64 ^ ((alias as u64) << 8)).wrapping_mul(0x100000001b3);
        if trail.len() > 30 {
            trail.remove(1);
        }
    }
    rep.evaluations += 1;
    rep.distinct_hash(h);
}

pub fn run(ctx: &Ctx) -> Report {
    let depth_small = ctx.tier.pick(6usize, 7usize);
    // (type, lo, hi, depth)
    #[derive(Clone, Copy)]
    struct Ex {
        ty: &'static str,
        lo: u64,
        hi: u64,
        depth: usize,
    }
    let mut jobs: Vec<Ex> = Vec::new();
    for (ty, tmax) in [("u8", 255u64), ("u16", 65535), ("u32", u32::MAX as u64), ("i8", 255), ("i16", 65535)] {
        for width in 0..=3u64 {
            // wider ranges get one level less so that the quick tier stays in seconds
            let d = if width == 3 { depth_small - 1 } else { depth_small };
            let d = if width <= 1 { d + 1 } else { d };
            jobs.push(Ex { ty, lo: 0, hi: width, depth: d });
            jobs.push(Ex { ty, lo: 1, hi: 1 + width, depth: d });
            jobs.push(Ex { ty, lo: tmax - width, hi: tmax, depth: d });
            if ty == "u8" {
                jobs.push(Ex { ty, lo: 100, hi: 100 + width, depth: d });
            }
            if ty == "i8" {
                // around zero
                jobs.push(Ex { ty, lo: 126, hi: 126 + width, depth: d });
            }
        }
    }
    let mut total = Report::new(
        "exhaustive: every sequence of mutating operations {allocate, clear, use_value(v), deallocate(v) for every v in range, use_value(out of range)} up to the stated depth on ranges of width 1..4 at 0, 1, mid and the type maximum of u8/u16/u32, all queries (is_used at every point incl. out of range, first_vacant, interval_count, hook intervals) evaluated after every operation; random: 1000-op sequences over wide ranges; PacketIdManager and TopicAliasSend sequences. distinct = distinct (type,range,depth) spaces + distinct random histories hashed by (operation, number of free runs) sequence",
    );
    total.exhaustive = true;
    // stream 1: exhaustive jobs (one case per job)
    let jobs_ref = &jobs;
    let r1 = run_cases(ctx, 1, jobs.len() as u64, "", |i, _seed, rep| {
        let j = jobs_ref[i as usize];
        let part = match j.ty {
            "u8" => exhaustive::<ValueAllocator<u8>>("u8", j.lo, j.hi, 255, j.depth, (1, i)),
            "u16" => exhaustive::<ValueAllocator<u16>>("u16", j.lo, j.hi, 65535, j.depth, (1, i)),
            "i8" => exhaustive::<SignedI8>("i8", j.lo, j.hi, 255, j.depth, (1, i)),
            "i16" => exhaustive::<SignedI16>("i16", j.lo, j.hi, 65535, j.depth, (1, i)),
            _ => exhaustive::<ValueAllocator<u32>>("u32", j.lo, j.hi, u32::MAX as u64, j.depth, (1, i)),
        };
        rep.merge(part);
    });
    total.merge(r1);
    // stream 2: random long sequences
    let n = ctx.budget(600, 40_000);
    let r2 = run_cases(ctx, 2, n, "", |i, seed, rep| {
        let mut r = Rng::new(seed ^ 0x55);
        let nops = 1000;
        match r.below(12) {
            9 => random_seq::<SignedI8>("i8", 0, 255, 255, nops, seed, (2, i), rep),
            10 => random_seq::<SignedI16>("i16", 0, 65535, 65535, nops, seed, (2, i), rep),
            11 => {
                let lo = r.range(0, 200);
                random_seq::<SignedI8>("i8", lo, r.range(lo, 255), 255, nops, seed, (2, i), rep)
            }
            0 => random_seq::<ValueAllocator<u16>>("u16", 1, 65535, 65535, nops, seed, (2, i), rep),
            1 => random_seq::<ValueAllocator<u16>>("u16", 0, 65535, 65535, nops, seed, (2, i), rep),
            2 => random_seq::<ValueAllocator<u32>>("u32", 1, u32::MAX as u64, u32::MAX as u64, nops, seed, (2, i), rep),
            3 => random_seq::<ValueAllocator<u32>>("u32", 0, u32::MAX as u64, u32::MAX as u64, nops, seed, (2, i), rep),
            4 => {
                let lo = r.range(0, 65535);
                random_seq::<ValueAllocator<u16>>("u16", lo, lo, 65535, nops, seed, (2, i), rep)
            }
            5 => {
                let lo = r.range(0, 65000);
                let hi = r.range(lo, (lo + 40).min(65535));
                random_seq::<ValueAllocator<u16>>("u16", lo, hi, 65535, nops, seed, (2, i), rep)
            }
            6 => random_seq::<ValueAllocator<u16>>("u16", 65535 - r.range(0, 12), 65535, 65535, nops, seed, (2, i), rep),
            7 => random_seq::<ValueAllocator<u32>>("u32", u32::MAX as u64 - r.range(0, 12), u32::MAX as u64, u32::MAX as u64, nops, seed, (2, i), rep),
            _ => random_seq::<ValueAllocator<u8>>("u8", 0, 255, 255, nops, seed, (2, i), rep),
        }
    });
    total.merge(r2);
    let r2b = run_cases(ctx, 6, 8, "", |i, _seed, rep| match i {
        0 => far_neighbours::<SignedI8>("i8", 255, 130, (6, i), rep),
        1 => far_neighbours::<SignedI8>("i8", 255, 256, (6, i), rep),
        2 => far_neighbours::<SignedI16>("i16", 65535, 32770, (6, i), rep),
        3 => far_neighbours::<SignedI16>("i16", 65535, 65536, (6, i), rep),
        4 => far_neighbours::<ValueAllocator<u8>>("u8", 255, 256, (6, i), rep),
        5 => far_neighbours::<ValueAllocator<u16>>("u16", 65535, 65536, (6, i), rep),
        6 => far_neighbours::<ValueAllocator<u16>>("u16", 65535, 40000, (6, i), rep),
        _ => far_neighbours::<ValueAllocator<u32>>("u32", u32::MAX as u64, 70000, (6, i), rep),
    });
    total.merge(r2b);
    let n3 = ctx.budget(300, 20_000);
    let r3 = run_cases(ctx, 3, n3, "", |i, seed, rep| pid_manager_seq(seed, 400, (3, i), rep));
    total.merge(r3);
    let r4 = run_cases(ctx, 4, n3, "", |i, seed, rep| topic_alias_send_seq(seed, 300, (4, i), rep));
    total.merge(r4);
    // u16 exhaustion through the allocator: every value 1..=65535 can be handed out, then None
    if ctx.replay.is_none() {
        let mut a = <ValueAllocator<u16> as AllocOps>::new(1, 65535);
        let mut ok = true;
        for k in 1..=65535u64 {
            if AllocOps::allocate(&mut a) != Some(k) {
                ok = false;
                total.violate(viol("A1-allocate-smallest-free", "u16", 1, 65535, &[Op::Allocate], format!("{}-th allocate did not return {}", k, k), (5, 0)));
                break;
            }
        }
        if ok && AllocOps::allocate(&mut a).is_some() {
            total.violate(viol("A1-allocate-smallest-free", "u16", 1, 65535, &[Op::Allocate], "allocate succeeded on an exhausted range".into(), (5, 0)));
        }
        total.hit("A14-exhaustion-u16");
        total.evaluations += 1;
        total.api_calls += 65536;
    }
    total.sample(json!({"kind": "exhaustive-space", "type": "u8", "range": [252, 255], "alphabet": "allocate, clear, use(252..=255), deallocate(252..=255), use(251)", "depth": depth_small - 1}), 6);
    total.sample(json!({"kind": "random", "type": "u16", "range": [1, 65535], "ops": 1000, "example_prefix": "allocate, allocate, use(65535), deallocate(1), allocate, deallocate(65535), ..."}), 6);
    total.assumptions.push("deallocate() is only called with in-range values (the allocator asserts that precondition itself); it is called for used AND already-free values".into());
    total.assumptions.push("the set model (BTreeSet of used values) is the specification".into());
    if ctx.replay.is_none() {
        total.require_hits(&[
            ("A1-allocate-smallest-free", 1000),
            ("A2-reserve-iff-free", 1000),
            ("A3-release-used", 1000),
            ("A3-release-free-is-noop", 1000),
            ("A5-out-of-range-not-used", 1000),
            ("A8-interval-count-equals-maximal-runs", 1000),
            ("A13-aliassend-lru-uses-first-vacant", 100),
        ]);
    }
    total
}

/// small single-threaded workload for the Miri shards
pub fn miri_workload(seed: u64) -> Report {
    let mut rep = Report::new("miri shard: allocator");
    rep.merge(exhaustive::<ValueAllocator<u8>>("u8", 254, 255, 255, 3, (0, 0)));
    rep.merge(exhaustive::<ValueAllocator<u16>>("u16", 1, 2, 65535, 2, (0, 0)));
    random_seq::<ValueAllocator<u16>>("u16", 1, 65535, 65535, 80, seed, (0, 0), &mut rep);
    random_seq::<ValueAllocator<u32>>("u32", u32::MAX as u64 - 3, u32::MAX as u64, u32::MAX as u64, 80, seed ^ 1, (0, 0), &mut rep);
    pid_manager_seq(seed, 60, (0, 0), &mut rep);
    topic_alias_send_seq(seed, 60, (0, 0), &mut rep);
    rep
}
