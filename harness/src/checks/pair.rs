//! C01 - two endpoints built on the library interoperate, even across transport loss.
//! A client object and a server object exchange exactly the bytes each requests to send, through two
//! byte pipes, under a seeded scheduler (delivery order/fragmentation, application workload, transport
//! losses at arbitrary byte offsets, virtual time). Oracle: error-free recv on both sides, a delivery
//! ledger keyed by unique message ids, bounded quiescence, idle-state probes. (DESIGN §4 C01, App. G)

use crate::apkt::*;
use crate::conn::*;
use crate::refcodec as rc;
use crate::report::{run_cases, Ctx, Report, Violation};
use crate::rng::Rng;
use serde_json::json;
use std::collections::{BTreeMap, BTreeSet, VecDeque};

#[derive(Clone, Copy, Debug, PartialEq, Eq)]
enum AliasMode {
    None,
    Manual,
    AutoMap,
    AutoReplace,
}

#[derive(Clone, Debug)]
struct Cfg {
    ver: Ver,
    idw: usize,
    client_role: Role,
    server_role: Role,
    auto_pub: [bool; 2],
    auto_ping: bool,
    alias: [AliasMode; 2],
    tam: [u16; 2], // announced BY side i (limits what the other may use)
    rm: [Option<u16>; 2],
    mps: [Option<u32>; 2],
    keep_alive: u16,
    server_keep_alive: Option<u16>,
    persistent: bool,
    offline_publish: bool,
    losses: bool,
    steps: usize,
}

#[derive(Clone, Debug)]
enum Reaction {
    Puback(u32),
    Pubrec(u32),
    Pubrel(u32),
    Pubcomp(u32),
    Suback(u32, usize),
    Unsuback(u32, usize),
    Pingresp,
    Connack,
}

#[derive(Clone, Debug, Default)]
struct Msg {
    qos: u8,
    topic: Vec<u8>,
    accepted: bool,
    notified: u32,
    loss_since_accept: bool,
    completed: bool,
}

struct Side {
    conn: Box<dyn Conn>,
    /// application's view: handshake finished
    connected: bool,
    reactions: VecDeque<Reaction>,
    /// aliases this application registered successfully on the current connection (alias -> topic)
    my_alias: BTreeMap<u16, Vec<u8>>,
    timers: BTreeMap<Timer, u64>, // deadline
    counter: u32,
    seen_ids: BTreeSet<u32>,
    last_connect_clean: bool,
    have_session: bool,
}

struct Sim {
    cfg: Cfg,
    r: Rng,
    sides: [Side; 2], // 0 client, 1 server
    pipes: [VecDeque<u8>; 2], // pipes[i]: bytes travelling TO side i
    up: bool,
    now: u64,
    log: Vec<String>,
    msgs: BTreeMap<String, Msg>,
    found: Vec<(String, String, String)>, // (rule, attrs, what)
    deliveries: u64,
    losses: u32,
    resumptions: u32,
    retransmissions: u32,
    loss_points: BTreeMap<&'static str, u64>,
    schedule_hash: u64,
    connects: u32,
}

const TOPICS: [&str; 3] = ["a", "b", "c/d"];

impl Sim {
    fn new(cfg: Cfg, seed: u64) -> Sim {
        let lv = LVer::from_ver(cfg.ver);
        let mk = |role: Role| Side {
            conn: new_conn(role, cfg.idw, lv),
            connected: false,
            reactions: VecDeque::new(),
            my_alias: BTreeMap::new(),
            timers: BTreeMap::new(),
            counter: 0,
            seen_ids: BTreeSet::new(),
            last_connect_clean: true,
            have_session: false,
        };
        let sides = [mk(cfg.client_role), mk(cfg.server_role)];
        let mut s = Sim {
            cfg,
            r: Rng::new(seed),
            sides,
            pipes: [VecDeque::new(), VecDeque::new()],
            up: false,
            now: 0,
            log: Vec::new(),
            msgs: BTreeMap::new(),
            found: Vec::new(),
            deliveries: 0,
            losses: 0,
            resumptions: 0,
            retransmissions: 0,
            loss_points: BTreeMap::new(),
            schedule_hash: 0xcbf29ce484222325,
            connects: 0,
        };
        for i in 0..2 {
            if s.cfg.auto_pub[i] {
                let _ = s.sides[i].conn.set_opt(Opt::AutoPubResponse, true);
            }
            match s.cfg.alias[i] {
                AliasMode::AutoMap => {
                    let _ = s.sides[i].conn.set_opt(Opt::AutoMapTopicAlias, true);
                }
                AliasMode::AutoReplace => {
                    let _ = s.sides[i].conn.set_opt(Opt::AutoReplaceTopicAlias, true);
                }
                _ => {}
            }
        }
        if s.cfg.auto_ping {
            let _ = s.sides[1].conn.set_opt(Opt::AutoPingResponse, true);
        }
        if s.cfg.offline_publish {
            let _ = s.sides[0].conn.set_opt(Opt::OfflinePublish, true);
        }
        let _ = s.sides[0].conn.set_pingresp_recv_timeout(700);
        s
    }
    fn name(i: usize) -> &'static str {
        if i == 0 {
            "client"
        } else {
            "server"
        }
    }
    fn fail(&mut self, rule: &str, attrs: String, what: String) {
        if self.found.len() < 3 {
            self.found.push((rule.to_string(), attrs, what));
        }
    }
    fn mix(&mut self, x: u64) {
        self.schedule_hash = (self.schedule_hash ^ x).wrapping_mul(0x100000001b3);
    }

    // ---- event execution: the application does exactly what the library requests, in order ----------
    fn handle(&mut self, i: usize, evs: Vec<Ev>, from_recv: bool, what: &str) {
        self.log.push(format!("{} {} => {}", Self::name(i), what, evs_short(&normalise(&evs))));
        for e in evs {
            match e {
                Ev::Send { bytes, release_on_err, pkt, .. } => {
                    if let Pkt::Publish { dup: true, .. } = &pkt {
                        self.retransmissions += 1;
                    }
                    if self.up {
                        self.pipes[1 - i].extend(bytes.iter());
                    } else if let Some(id) = release_on_err {
                        // the send failed: give the id back, as the API documents
                        if let Ok(evs) = self.sides[i].conn.release(id) {
                            self.log.push(format!("{} release_packet_id({}) after failed send => {}", Self::name(i), id, evs_short(&evs)));
                        }
                    }
                }
                Ev::Recv { pkt, .. } => self.on_packet(i, pkt),
                Ev::Released(_) => {}
                Ev::TimerReset { kind, ms } => {
                    self.sides[i].timers.insert(kind, self.now + ms);
                }
                Ev::TimerCancel(k) => {
                    self.sides[i].timers.remove(&k);
                }
                Ev::Error(e) => {
                    if from_recv {
                        self.fail("I1-no-protocol-error-between-correct-endpoints", format!("side={};error={}", Self::name(i), e), format!("{} reports {} while processing bytes its peer (the same library) requested to send ({})", Self::name(i), e, what));
                    } else {
                        self.log.push(format!("   ({} application send refused: {})", Self::name(i), e));
                    }
                }
                Ev::Close => {
                    self.log.push(format!("   {} closes the transport on request", Self::name(i)));
                    self.transport_down(false);
                }
            }
        }
    }

    fn on_packet(&mut self, i: usize, pkt: Pkt) {
        let auto = self.cfg.auto_pub[i];
        match &pkt {
            Pkt::Connect { clean, .. } => {
                self.sides[1].last_connect_clean = *clean;
                self.sides[i].reactions.push_back(Reaction::Connack);
            }
            Pkt::Connack { code, .. } => {
                if *code == 0 {
                    self.sides[i].connected = true;
                }
            }
            Pkt::Publish { qos, id, topic, payload, .. } => {
                let key = String::from_utf8_lossy(payload).to_string();
                let mut wrong_topic = None;
                if let Some(m) = self.msgs.get_mut(&key) {
                    m.notified += 1;
                    if &m.topic != topic {
                        wrong_topic = Some((m.topic.clone(), topic.clone()));
                    }
                } else {
                    self.fail("I2-delivered-message-was-sent", String::new(), format!("{} was notified of a PUBLISH with payload {:?} that nobody sent", Self::name(i), key));
                }
                if let Some((want, got)) = wrong_topic {
                    self.fail("I3-original-topic-and-payload", String::new(), format!("message {} published to {:?} was delivered with topic {:?}", key, String::from_utf8_lossy(&want), String::from_utf8_lossy(&got)));
                }
                if !auto {
                    match (qos, id) {
                        (1, Some(id)) => self.sides[i].reactions.push_back(Reaction::Puback(*id)),
                        (2, Some(id)) => self.sides[i].reactions.push_back(Reaction::Pubrec(*id)),
                        _ => {}
                    }
                }
            }
            Pkt::Ack { kind: AckKind::Pubrec, id, code, .. } => {
                if !auto && code.map(|c| c < 0x80).unwrap_or(true) {
                    self.sides[i].reactions.push_back(Reaction::Pubrel(*id));
                }
            }
            Pkt::Ack { kind: AckKind::Pubrel, id, .. } => {
                if !auto {
                    self.sides[i].reactions.push_back(Reaction::Pubcomp(*id));
                }
            }
            Pkt::Subscribe { id, entries, .. } => self.sides[i].reactions.push_back(Reaction::Suback(*id, entries.len())),
            Pkt::Unsubscribe { id, entries, .. } => self.sides[i].reactions.push_back(Reaction::Unsuback(*id, entries.len())),
            Pkt::Pingreq { .. } => {
                if !self.cfg.auto_ping {
                    self.sides[i].reactions.push_back(Reaction::Pingresp);
                }
            }
            _ => {}
        }
    }

    fn transport_down(&mut self, is_loss: bool) {
        if !self.up {
            return;
        }
        self.up = false;
        if is_loss {
            self.losses += 1;
            for m in self.msgs.values_mut() {
                if m.accepted && !m.completed {
                    m.loss_since_accept = true;
                }
            }
        }
        self.pipes[0].clear();
        self.pipes[1].clear();
        for i in 0..2 {
            // a pending PUBREL of a persistent session survives; everything else dies with the transport
            let persistent = self.cfg.persistent;
            self.sides[i].reactions.retain(|r| matches!(r, Reaction::Pubrel(_)) && persistent);
            self.sides[i].connected = false;
            self.sides[i].my_alias.clear();
            match self.sides[i].conn.notify_closed() {
                Ok(evs) => self.handle(i, evs, false, "notify_closed()"),
                Err(p) => self.fail("I0-no-panic", format!("call=notify_closed;msg={}", p.class()), p.message),
            }
        }
        if self.cfg.persistent {
            self.sides[1].have_session = true;
        } else {
            self.sides[1].have_session = false;
        }
    }

    fn send(&mut self, i: usize, p: &Pkt) -> bool {
        match self.sides[i].conn.send(p, Via::Dynamic) {
            Err(pn) => {
                self.fail("I0-no-panic", format!("call=send;msg={}", pn.class()), format!("{} send({}) panicked: {}", Self::name(i), p.short(), pn.message));
                false
            }
            Ok(SendOutcome::Events(evs)) => {
                let ok = !evs.iter().any(|e| e.is_error());
                self.handle(i, evs, false, &format!("send({})", p.short()));
                ok
            }
            Ok(_) => false,
        }
    }

    fn deliver(&mut self, to: usize, k: usize) {
        let n = k.min(self.pipes[to].len());
        if n == 0 {
            return;
        }
        let chunk: Vec<u8> = self.pipes[to].drain(..n).collect();
        let mut off = 0;
        let mut it = 0;
        while off < chunk.len() {
            it += 1;
            match self.sides[to].conn.recv(&chunk[off..]) {
                Err(pn) => {
                    self.fail("I0-no-panic", format!("call=recv;msg={}", pn.class()), format!("{} recv panicked: {}", Self::name(to), pn.message));
                    return;
                }
                Ok((evs, c)) => {
                    if (c == 0 && evs.is_empty()) || it > chunk.len() + 4 {
                        self.fail("I4-exchange-terminates", "why=recv-no-progress".into(), "recv made no progress".into());
                        return;
                    }
                    self.deliveries += 1;
                    let what = format!("recv({})", crate::model::hexs(&chunk[off..off + c]));
                    off += c;
                    self.handle(to, evs, true, &what);
                    if !self.up {
                        return; // transport closed while processing
                    }
                }
            }
        }
    }

    fn frame_len_at_head(&self, to: usize) -> usize {
        let v: Vec<u8> = self.pipes[to].iter().copied().take(8).collect();
        match rc::frame_at(&v) {
            rc::Framed::Frame { total, .. } => total,
            _ => {
                // need the length bytes only
                let mut mult = 1usize;
                let mut val = 0usize;
                for (i, b) in v.iter().skip(1).enumerate().take(4) {
                    val += (*b & 0x7F) as usize * mult;
                    mult *= 128;
                    if b & 0x80 == 0 {
                        return 2 + i + val;
                    }
                }
                v.len()
            }
        }
    }

    // ---- application workload ---------------------------------------------------------------------------
    fn connect_props(&self, i: usize, for_connack: bool) -> Vec<Prop> {
        if self.cfg.ver != Ver::V5 {
            return vec![];
        }
        let mut ps = Vec::new();
        if let Some(rm) = self.cfg.rm[i] {
            ps.push(p_u16(P_RM, rm));
        }
        ps.push(p_u16(P_TAM, self.cfg.tam[i]));
        if let Some(m) = self.cfg.mps[i] {
            ps.push(p_u32(P_MPS, m));
        }
        if !for_connack && self.cfg.persistent {
            ps.push(p_u32(P_SEI, 300));
        }
        if for_connack {
            if let Some(k) = self.cfg.server_keep_alive {
                ps.push(p_u16(P_SKA, k));
            }
        }
        ps
    }
    fn client_connect(&mut self) {
        self.up = true;
        self.connects += 1;
        // first connection of a persistent v3.1.1 session may be clean or not; later ones resume
        let clean = !self.cfg.persistent;
        self.sides[0].last_connect_clean = clean;
        let p = Pkt::Connect { ver: self.cfg.ver, clean, keep_alive: self.cfg.keep_alive, client_id: b"cid".to_vec(), will: None, user: None, pass: None, props: self.connect_props(0, false) };
        self.send(0, &p);
    }
    fn publish(&mut self, i: usize) {
        let ver = self.cfg.ver;
        let qos = self.r.below(3) as u8;
        let conn_ok = self.sides[i].connected;
        // while the transport is down only the client of a persistent session / with offline publishing may publish QoS>0
        if !conn_ok && !(i == 0 && qos > 0 && (self.cfg.persistent || self.cfg.offline_publish) && self.connects > 0 && !self.up) {
            return;
        }
        if qos > 0 && ver == Ver::V5 {
            if conn_ok {
                if let Ok(Some(0)) = self.sides[i].conn.vacancy() {
                    return; // respect the peer's Receive Maximum
                }
            } else if let Some(m) = self.cfg.rm[1 - i] {
                // offline: everything stored is retransmitted at the resume, and the limit is the same then
                let stored = self.sides[i].conn.stored().map(|s| s.len()).unwrap_or(0);
                if stored >= m as usize {
                    return;
                }
            }
        }
        let topic = self.r.pick(&TOPICS).as_bytes().to_vec();
        let mut wire_topic = topic.clone();
        let mut props = Vec::new();
        let peer_tam = self.cfg.tam[1 - i];
        if ver == Ver::V5 && conn_ok && self.cfg.alias[i] == AliasMode::Manual && peer_tam > 0 && self.r.bool() {
            let a = self.r.range(1, peer_tam as u64) as u16;
            if self.sides[i].my_alias.get(&a) == Some(&topic) && self.r.bool() {
                wire_topic.clear(); // use the binding
            }
            props.push(p_u16(P_TA, a));
        }
        if ver == Ver::V5 && self.r.below(100) < 5 {
            // contents dimension: a property section whose length prefix changes width when the library adds or strips
            // the 3-byte Topic Alias (stored copy, automatic mapping)
            let cur = 3 * props.len();
            let target = 122 + self.r.usize(10);
            props.push(Prop { id: 38, val: PVal::Pair(b"k".to_vec(), vec![b'v'; target - cur - 7]) });
        }
        self.sides[i].counter += 1;
        let key = format!("{}:{}", if i == 0 { "C" } else { "S" }, self.sides[i].counter);
        let id = if qos > 0 {
            match self.sides[i].conn.acquire() {
                Ok(Ok(id)) => {
                    self.sides[i].seen_ids.insert(id);
                    Some(id)
                }
                _ => return,
            }
        } else {
            None
        };
        let retain = self.r.below(6) == 0;
        let p = Pkt::Publish { ver, dup: false, qos, retain, topic: wire_topic.clone(), id, props: props.clone(), payload: key.as_bytes().to_vec() };
        self.msgs.insert(key.clone(), Msg { qos, topic: topic.clone(), ..Default::default() });
        let accepted = self.send(i, &p);
        if let Some(m) = self.msgs.get_mut(&key) {
            m.accepted = accepted;
        }
        if accepted {
            if let Some(Prop { val: PVal::U16(a), .. }) = props.first() {
                if !wire_topic.is_empty() && self.up && conn_ok {
                    self.sides[i].my_alias.insert(*a, topic);
                }
            }
        } else if !wire_topic.is_empty() {
            // a refused registration is not a registration
        }
    }
    fn app_op(&mut self, i: usize) {
        let ver = self.cfg.ver;
        match self.r.below(10) {
            0..=6 => self.publish(i),
            7 if i == 0 && self.sides[0].connected => {
                if let Ok(Ok(id)) = self.sides[0].conn.acquire() {
                    self.sides[0].seen_ids.insert(id);
                    let p = if self.r.bool() { Pkt::Subscribe { ver, id, props: vec![], entries: vec![(b"a/#".to_vec(), 1)] } } else { Pkt::Unsubscribe { ver, id, props: vec![], entries: vec![b"a/#".to_vec()] } };
                    self.send(0, &p);
                }
            }
            8 if i == 0 && self.sides[0].connected => {
                self.send(0, &Pkt::Pingreq { ver });
            }
            _ => self.publish(i),
        }
    }
    fn react(&mut self, i: usize) {
        let Some(r) = self.sides[i].reactions.pop_front() else { return };
        let ver = self.cfg.ver;
        let ack = |kind: AckKind, id: u32| Pkt::Ack { ver, kind, id, code: None, props: None };
        match r {
            Reaction::Connack => {
                let sp = self.sides[1].have_session && !self.sides[1].last_connect_clean;
                if sp {
                    self.resumptions += 1;
                }
                let p = Pkt::Connack { ver, sp, code: 0, props: self.connect_props(1, true) };
                if self.send(1, &p) {
                    self.sides[1].connected = true;
                    self.sides[1].have_session = self.cfg.persistent;
                }
            }
            Reaction::Puback(id) => {
                self.send(i, &ack(AckKind::Puback, id));
            }
            Reaction::Pubrec(id) => {
                self.send(i, &ack(AckKind::Pubrec, id));
            }
            Reaction::Pubrel(id) => {
                // (sent now if connected; queued by the library if the persistent session is offline)
                self.send(i, &ack(AckKind::Pubrel, id));
            }
            Reaction::Pubcomp(id) => {
                self.send(i, &ack(AckKind::Pubcomp, id));
            }
            Reaction::Suback(id, n) => {
                self.send(i, &Pkt::Suback { ver, id, props: vec![], codes: vec![0; n.max(1)] });
            }
            Reaction::Unsuback(id, n) => {
                self.send(i, &Pkt::Unsuback { ver, id, props: vec![], codes: if ver == Ver::V5 { vec![0; n.max(1)] } else { vec![] } });
            }
            Reaction::Pingresp => {
                self.send(i, &Pkt::Pingresp { ver });
            }
        }
    }
    fn advance_time(&mut self) {
        // zero-latency network: time only moves when nothing is in flight
        if !self.pipes[0].is_empty() || !self.pipes[1].is_empty() || self.sides.iter().any(|s| !s.reactions.is_empty()) {
            return;
        }
        let mut best: Option<(u64, usize, Timer)> = None;
        for i in 0..2 {
            for (k, d) in self.sides[i].timers.iter() {
                if best.map(|b| *d < b.0).unwrap_or(true) {
                    best = Some((*d, i, *k));
                }
            }
        }
        let Some((d, i, k)) = best else { return };
        self.now = self.now.max(d);
        self.sides[i].timers.remove(&k);
        match self.sides[i].conn.notify_timer_fired(k) {
            Err(p) => self.fail("I0-no-panic", format!("call=timer;msg={}", p.class()), p.message),
            Ok(evs) => {
                if k != Timer::PingreqSend && self.up && self.sides[i].connected {
                    self.fail("I5-no-keep-alive-timeout-on-a-live-peer", format!("side={};timer={:?}", Self::name(i), k), format!("{:?} expired on {} at virtual time {} although the peer is alive and the network has zero latency", k, Self::name(i), self.now));
                }
                self.handle(i, evs, false, &format!("notify_timer_fired({:?})", k));
            }
        }
    }
    fn loss(&mut self) {
        // some bytes may still arrive before the transport dies: possibly in the middle of a frame
        for to in 0..2 {
            let n = self.pipes[to].len();
            if n > 0 && self.r.bool() {
                let k = self.r.usize(n + 1);
                let fl = self.frame_len_at_head(to).max(1);
                let class = if k == 0 {
                    "nothing-delivered"
                } else if k % fl == 0 && k <= fl {
                    "at-frame-boundary"
                } else if k < 2.min(fl) {
                    "inside-fixed-header"
                } else {
                    "inside-frame"
                };
                *self.loss_points.entry(class).or_insert(0) += 1;
                self.deliver(to, k);
                if !self.up {
                    return;
                }
            } else {
                *self.loss_points.entry(if n == 0 { "pipe-empty" } else { "nothing-delivered" }).or_insert(0) += 1;
            }
        }
        self.log.push("   *** transport lost ***".into());
        self.transport_down(true);
    }

    fn step(&mut self) {
        if !self.up {
            // the client may work offline for a moment, then reconnects
            if self.connects > 0 && self.r.below(3) == 0 {
                self.app_op(0);
                self.mix(11);
                return;
            }
            if !self.sides[0].reactions.is_empty() && self.r.bool() {
                self.react(0);
                self.mix(12);
                return;
            }
            self.client_connect();
            self.mix(13);
            return;
        }
        let w = [18u32, 14, 22, 22, 14, if self.cfg.losses { 3 } else { 0 }, 3];
        let c = self.r.weighted(&w);
        self.mix(c as u64);
        match c {
            0 => self.app_op(0),
            1 => {
                if self.sides[1].connected {
                    self.app_op(1)
                }
            }
            2 | 3 => {
                let to = c - 2;
                let n = self.pipes[to].len();
                if n > 0 {
                    let fl = self.frame_len_at_head(to);
                    let k = match self.r.below(6) {
                        0 => 1,
                        1 => 2,
                        2 => 3,
                        3 => fl,
                        4 => fl + 1,
                        _ => n,
                    };
                    self.mix(k as u64 * 7 + to as u64);
                    self.deliver(to, k);
                }
            }
            4 => {
                let i = self.r.usize(2);
                if !self.sides[i].reactions.is_empty() {
                    self.react(i);
                } else {
                    self.react(1 - i);
                }
            }
            5 => self.loss(),
            _ => self.advance_time(),
        }
    }

    fn drain(&mut self) -> bool {
        // faults off: everything in flight must settle within the bound
        let inflight = self.msgs.values().filter(|m| m.accepted && m.qos > 0).count() as u64;
        let bound = 64 * (inflight + 4) + 200;
        let start = self.deliveries;
        let mut idle_rounds = 0;
        let mut guard = 0u64;
        loop {
            guard += 1;
            if guard > bound * 4 {
                self.fail("I4-exchange-terminates", "why=step-bound".into(), format!("no quiescence after {} scheduler steps with faults off", guard));
                return false;
            }
            if !self.up {
                self.client_connect();
                continue;
            }
            let mut did = false;
            for to in 0..2 {
                if !self.pipes[to].is_empty() {
                    let n = self.pipes[to].len();
                    self.deliver(to, n);
                    did = true;
                    if !self.up {
                        break;
                    }
                }
            }
            for i in 0..2 {
                if !self.sides[i].reactions.is_empty() {
                    self.react(i);
                    did = true;
                }
            }
            if self.deliveries - start > bound {
                self.fail("I4-exchange-terminates", "why=delivery-bound".into(), format!("more than {} deliveries after faults stopped ({} QoS>0 messages in flight): endless response loop?", bound, inflight));
                return false;
            }
            if !self.found.is_empty() {
                return false;
            }
            if !did {
                idle_rounds += 1;
                if idle_rounds >= 2 && self.sides[0].connected && self.sides[1].connected {
                    return true;
                }
                if idle_rounds > 6 {
                    self.fail("I4-exchange-terminates", "why=handshake-never-completes".into(), format!("nothing in flight but client connected={} server connected={}", self.sides[0].connected, self.sides[1].connected));
                    return false;
                }
            } else {
                idle_rounds = 0;
            }
        }
    }

    fn final_checks(&mut self) {
        let any_loss = self.losses > 0;
        let msgs: Vec<(String, Msg)> = self.msgs.iter().map(|(k, v)| (k.clone(), v.clone())).collect();
        for (k, m) in msgs {
            if !m.accepted {
                if m.notified > 0 {
                    self.fail("I6-delivery-guarantee", format!("qos={};why=refused-but-delivered", m.qos), format!("message {} was refused by send() yet delivered {} times", k, m.notified));
                }
                continue;
            }
            let lossy = m.loss_since_accept && any_loss;
            let ok = match m.qos {
                2 => m.notified == 1,
                1 => m.notified >= 1 && (lossy || m.notified == 1),
                _ => m.notified <= 1,
            };
            // QoS>0 messages accepted under a NON-persistent session can be lost with the transport only if there was a loss
            if !ok {
                self.fail("I6-delivery-guarantee", format!("qos={};notified={};loss={}", m.qos, m.notified.min(3), lossy), format!("QoS {} message {} (accepted by send) was notified {} times (transport lost since acceptance: {})", m.qos, k, m.notified, lossy));
            }
        }
        // idle state on both sides
        for i in 0..2 {
            let stored = self.sides[i].conn.stored().unwrap_or_default();
            if !stored.is_empty() {
                self.fail("I7-idle-at-quiescence", format!("side={};what=store", Self::name(i)), format!("{} still stores {:?} at quiescence", Self::name(i), stored.iter().map(|p| p.short()).collect::<Vec<_>>()));
            }
            let ids: Vec<u32> = self.sides[i].seen_ids.iter().copied().chain(1..=6).collect();
            let in_use: Vec<u32> = match self.sides[i].conn.in_use_hook(&ids) {
                Some(v) => v,
                None => {
                    let mut v = Vec::new();
                    for id in ids {
                        match self.sides[i].conn.register(id) {
                            Ok(Ok(())) => {
                                let _ = self.sides[i].conn.release(id);
                            }
                            Ok(Err(_)) => v.push(id),
                            Err(_) => {}
                        }
                    }
                    v
                }
            };
            if !in_use.is_empty() {
                self.fail("I7-idle-at-quiescence", format!("side={};what=ids", Self::name(i)), format!("{} still holds packet ids {:?} at quiescence", Self::name(i), in_use));
            }
            if self.cfg.ver == Ver::V5 {
                let want = self.cfg.rm[1 - i];
                let got = self.sides[i].conn.vacancy().unwrap_or(None);
                if got != want {
                    self.fail("I7-idle-at-quiescence", format!("side={};what=vacancy", Self::name(i)), format!("{} reports Receive Maximum vacancy {:?} at quiescence, peer announced {:?}", Self::name(i), got, want));
                }
            }
        }
    }

    fn run(&mut self) {
        for _ in 0..self.cfg.steps {
            if !self.found.is_empty() {
                return;
            }
            self.step();
        }
        if !self.found.is_empty() {
            return;
        }
        self.log.push("   --- faults off, draining ---".into());
        if self.drain() {
            // every accepted exchange is complete now
            for m in self.msgs.values_mut() {
                m.completed = true;
            }
            self.final_checks();
        }
    }
}

fn gen_cfg(r: &mut Rng) -> Cfg {
    let ver = if r.below(100) < 60 { Ver::V5 } else { Ver::V311 };
    let persistent = r.below(100) < 65;
    let am = |r: &mut Rng| if ver == Ver::V5 { *r.pick(&[AliasMode::None, AliasMode::Manual, AliasMode::AutoMap, AliasMode::AutoReplace]) } else { AliasMode::None };
    let rm = |r: &mut Rng| *r.pick(&[None, Some(1u16), Some(2), Some(65535)]);
    let a0 = am(r);
    let a1 = am(r);
    Cfg {
        ver,
        idw: if r.below(4) == 0 { 4 } else { 2 },
        client_role: if r.below(4) == 0 { Role::Any } else { Role::Client },
        server_role: if r.below(4) == 0 { Role::Any } else { Role::Server },
        auto_pub: [r.bool(), r.bool()],
        auto_ping: r.bool(),
        alias: [a0, a1],
        tam: [*r.pick(&[0u16, 1, 2]), *r.pick(&[0u16, 1, 2])],
        rm: [rm(r), rm(r)],
        mps: [*r.pick(&[None, None, Some(200u32)]), *r.pick(&[None, None, Some(200u32)])],
        keep_alive: *r.pick(&[0u16, 10]),
        server_keep_alive: if ver == Ver::V5 && r.below(4) == 0 { Some(*r.pick(&[0u16, 5])) } else { None },
        persistent,
        offline_publish: r.below(4) == 0,
        losses: persistent && r.below(100) < 75,
        steps: 20 + r.usize(60),
    }
}

pub fn run(ctx: &Ctx) -> Report {
    let rule = "a Client (or Any) object and a Server (or Any) object of the same version exchange exactly the bytes of each other's RequestSendPacket events through two byte pipes; a seeded scheduler interleaves application workload on both sides (publishes QoS 0/1/2 with unique payload ids and manual aliases, subscribe/unsubscribe, ping, manual or automatic acknowledgements as queued reactions), deliveries of 1/2/3/frame/frame+1/all bytes, transport losses at arbitrary byte offsets with persistent-session resumption, and virtual time; configurations: v3.1.1/v5.0 x id width x auto responses per side x alias mode per side x Topic Alias Maximum {0,1,2} x Receive Maximum {none,1,2,65535} x Maximum Packet Size x keep-alive x persistent x offline publishing. distinct = distinct schedules (hash of the scheduler's choices) that transported at least one QoS>0 message";
    let n = ctx.budget(800_000, 30_000_000);
    let mut total = run_cases(ctx, 1, n, rule, |i, seed, rep| {
        let mut r = Rng::new(seed ^ 0x01);
        let cfg = gen_cfg(&mut r);
        let cfgj = json!({"version": format!("{:?}", cfg.ver), "id_width": cfg.idw, "roles": format!("{:?}/{:?}", cfg.client_role, cfg.server_role), "auto_pub": cfg.auto_pub, "auto_ping": cfg.auto_ping, "alias": format!("{:?}", cfg.alias), "topic_alias_maximum": cfg.tam, "receive_maximum": cfg.rm, "maximum_packet_size": cfg.mps, "keep_alive": cfg.keep_alive, "server_keep_alive": cfg.server_keep_alive, "persistent": cfg.persistent, "offline_publish": cfg.offline_publish, "losses": cfg.losses, "steps": cfg.steps});
        let mut sim = Sim::new(cfg, seed);
        sim.run();
        rep.evaluations += 1;
        rep.api_calls += sim.deliveries + sim.log.len() as u64;
        rep.hit("I1-no-protocol-error-between-correct-endpoints");
        rep.hit_n("I6-delivery-guarantee", sim.msgs.values().filter(|m| m.accepted).count() as u64);
        rep.count_n("deliveries", sim.deliveries);
        rep.count_n("transport_losses", sim.losses as u64);
        rep.count_n("resumptions", sim.resumptions as u64);
        rep.count_n("retransmitted_publishes", sim.retransmissions as u64);
        for (k, v) in sim.loss_points.iter() {
            rep.count_n(&format!("loss_point[{}]", k), *v);
        }
        for q in 0..3u8 {
            rep.count_n(&format!("messages_accepted_qos{}", q), sim.msgs.values().filter(|m| m.accepted && m.qos == q).count() as u64);
        }
        if sim.msgs.values().any(|m| m.accepted && m.qos > 0) {
            rep.distinct_hash(sim.schedule_hash);
        }
        if sim.losses > 0 {
            rep.hit("I8-fault-points-exercised");
        }
        for (rule, attrs, what) in sim.found.iter() {
            rep.violate(Violation {
                property: "C01".into(),
                rule: rule.clone(),
                signature: if attrs.is_empty() { format!("C01.{}", rule) } else { format!("C01.{}@{}", rule, attrs) },
                what: what.clone(),
                witness: json!({"configuration": cfgj, "log": sim.log}),
                case: (1, i),
            });
        }
        if i % 9973 == 13 {
            rep.sample(json!({"configuration": cfgj, "log": sim.log.iter().take(80).collect::<Vec<_>>()}), 3);
        }
    });
    total.assumptions.push("application model of DESIGN Appendix G: executes every Request* event faithfully and in order, answers with manual acknowledgements as queued reactions when automatic responses are off, decides session_present truthfully, never exceeds the peer's Receive Maximum (asks the vacancy), uses an alias only within the peer's Topic Alias Maximum and an empty topic only with an alias it registered on the current connection; limits are constant across resumes; zero-latency network for keep-alive purposes".into());
    total.assumptions.push("transport losses are injected only for persistent sessions (the statement speaks of resumption)".into());
    if ctx.replay.is_none() {
        total.require_hits(&[("I1-no-protocol-error-between-correct-endpoints", 10_000), ("I6-delivery-guarantee", 50_000), ("I8-fault-points-exercised", 2_000)]);
    }
    total
}
