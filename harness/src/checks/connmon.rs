//! Connection-level properties decided by the generic driver + the shared reference model:
//! C05 C06 C07 C08 C12 C13 C14 C15 C19. Each check runs the driver with its own focus and reports
//! only the rules of its own property.

use crate::conn::{evs_short, Ev};
use crate::driver::*;
use crate::report::{run_cases, Ctx, Report, Violation};
use crate::rng::Rng;
use serde_json::json;

/// signatures of the `known` entries of known_findings.json
pub fn known_signatures() -> std::sync::Arc<std::collections::HashSet<String>> {
    let root = std::env::var("VERIF_ROOT").unwrap_or_else(|_| "/verif".to_string());
    let fs = crate::findings::load(&format!("{}/known_findings.json", root));
    std::sync::Arc::new(fs.into_iter().filter(|f| f.status == "known").map(|f| f.signature).collect())
}

pub struct Spec {
    pub prop: &'static str,
    pub focus: &'static [Focus],
    pub hostile_pct: u64,
    pub quick: u64,
    pub thorough: u64,
    pub floors: &'static [(&'static str, u64)],
    pub rule_text: &'static str,
}

pub fn run_spec(ctx: &Ctx, sp: &Spec) -> Report {
    let n = ctx.budget(sp.quick, sp.thorough);
    let known = known_signatures();
    let mut total = run_cases(ctx, 1, n, sp.rule_text, |i, seed, rep| {
        let mut r = Rng::new(seed ^ 0xA11CE);
        let focus = sp.focus[(i as usize) % sp.focus.len()];
        let sc = random_scenario(&mut r, focus, sp.hostile_pct);
        let scj = scenario_json(&sc);
        let mut d = Driver::new(sc, seed);
        d.known = known.clone();
        // C05 and C14 state what holds whatever the application does: one history in four lets it break its contract
        if matches!(sp.prop, "C05" | "C14") && i % 4 == 3 {
            d.misuse_pm = 40;
        }
        // C08: conservation of ids holds even when the application forgets to report a close before it reconnects
        if sp.prop == "C08" && i % 4 == 3 {
            d.skip_close_pm = 300;
        }
        let out = d.run();
        rep.evaluations += 1;
        rep.api_calls += out.api_calls;
        for (k, v) in out.hits.iter() {
            rep.hit_n(k, *v);
        }
        for (k, v) in out.counters.iter() {
            rep.count_n(k, *v);
        }
        rep.count_n("connections", out.connections as u64);
        rep.count_n("frames_fed", out.frames);
        rep.count(&format!("max_inflight={}", out.max_inflight.min(6)));
        rep.count(&format!("connections_per_history={}", out.connections.min(6)));
        if out.nontrivial {
            rep.distinct_hash(out.shape);
        }
        if i % 997 == 3 {
            rep.sample(json!({"scenario": scj, "history": trace_json(&out.trace)}), 4);
        }
        for f in out.found.iter().chain(out.known_seen.iter()) {
            if f.property == sp.prop || std::env::var("VERIF_ALLPROPS").is_ok() {
                rep.violate(Violation {
                    property: f.property.to_string(),
                    rule: f.rule.to_string(),
                    signature: f.signature(),
                    what: f.what.clone(),
                    witness: json!({"scenario": scj, "history": trace_json(&out.trace), "model_state_at_failure": out.model_state}),
                    case: (1, i),
                });
            } else {
                rep.count(&format!("history_ended_by_other_property_rule[{}]", f.signature()));
            }
        }
    });
    total.assumptions.push("application contract (DESIGN §3.3): ids used in sends come from acquire/register and are not reused while an exchange owns them; timers are fired only when armed; notify_closed follows a close request or models a transport loss and always precedes the next CONNECT; manual responses answer ids the peer used".into());
    total.assumptions.push("the reference model (DESIGN Appendix F) is the specification; it is updated only from calls, returned events and public probes".into());
    total.extra.insert("histories_nontrivial".into(), json!(total.distinct.len()));
    if ctx.replay.is_none() {
        total.require_hits(sp.floors);
    }
    total
}

const RULE: &str = "seeded random histories (10-60 operations) of contract-respecting local calls interleaved with peer traffic (matching/mismatching acknowledgements, publishes with small id/topic/alias alphabets, hostile frames) over roles Client/Server/Any x v3.1.1/v5.0/undetermined x u16/u32 ids x option flags x negotiated limits; every call record is fed to the reference model; distinct = distinct histories by hash of (call kind, event kind) sequence among those that reached an established connection with at least one exchange in flight";

pub fn spec_for(prop: &str) -> Option<Spec> {
    Some(match prop {
        "C05" => Spec { prop: "C05", focus: &[Focus::Hostile, Focus::General, Focus::Size, Focus::Flow], hostile_pct: 30, quick: 700_000, thorough: 25_000_000, floors: &[("X3-frame-delivered-answered-or-reported", 10_000)], rule_text: RULE },
        "C06" => Spec { prop: "C06", focus: &[Focus::Store, Focus::General], hostile_pct: 4, quick: 500_000, thorough: 20_000_000, floors: &[("S1-accepted-publish-sent-or-stored", 5_000), ("S3-store-changes-only-for-a-cause", 100_000), ("S4-resend-store-in-order-after-connack", 1_000), ("S6-only-matching-ack-is-accepted", 2_000)], rule_text: RULE },
        "C07" => Spec { prop: "C07", focus: &[Focus::Qos2In], hostile_pct: 4, quick: 500_000, thorough: 20_000_000, floors: &[("Q1-qos2-notified-at-most-once-per-exchange", 5_000), ("Q2-handled-set-equals-model", 100_000), ("Q4-duplicate-answered-with-pubrec", 500)], rule_text: RULE },
        "C08" => Spec { prop: "C08", focus: &[Focus::Ids, Focus::Store, Focus::Size], hostile_pct: 4, quick: 500_000, thorough: 20_000_000, floors: &[("P1-acquire-returns-free-id", 10_000), ("P3-release-announced-only-for-in-use-id", 5_000), ("P4-in-use-set-equals-model", 100_000), ("P5b-refused-send-releases-id", 1_000), ("P5c-close-releases-inflight-ids", 5_000)], rule_text: RULE },
        "C12" => Spec { prop: "C12", focus: &[Focus::Flow], hostile_pct: 3, quick: 500_000, thorough: 20_000_000, floors: &[("F1-vacancy-equals-max-minus-outstanding", 50_000), ("F2-accept-iff-below-receive-maximum", 5_000), ("F3-inbound-excess-not-delivered", 1_000)], rule_text: RULE },
        "C13" => Spec { prop: "C13", focus: &[Focus::Alias], hostile_pct: 3, quick: 500_000, thorough: 20_000_000, floors: &[("AL1-empty-topic-resolvable-at-receiver", 1_000), ("AL2-alias-within-peer-maximum", 2_000), ("AL5-inbound-alias-resolves-to-bound-topic", 300)], rule_text: RULE },
        "C14" => Spec { prop: "C14", focus: &[Focus::Size, Focus::Size, Focus::Store, Focus::Hostile], hostile_pct: 6, quick: 500_000, thorough: 20_000_000, floors: &[("Z1-sent-size-within-peer-maximum", 20_000)], rule_text: RULE },
        "C15" => Spec { prop: "C15", focus: &[Focus::Timers, Focus::General], hostile_pct: 4, quick: 500_000, thorough: 20_000_000, floors: &[("T1-cancel-only-armed", 5_000), ("T2-no-timer-armed-after-close-or-disconnect", 10_000), ("T4-client-rearms-pingreq-after-send", 5_000), ("T5-server-rearms-receive-timer", 5_000), ("T7-expiry-has-specified-effect", 500)], rule_text: RULE },
        "C19" => Spec { prop: "C19", focus: &[Focus::Hostile, Focus::Timers, Focus::General, Focus::Store, Focus::Qos2In], hostile_pct: 20, quick: 600_000, thorough: 20_000_000, floors: &[("K1-close-after-last-send", 10_000), ("K2-closing-packet-accompanied-by-close", 5_000), ("K3-timeout-results-in-close", 200)], rule_text: RULE },
        _ => return None,
    })
}

pub fn run(ctx: &Ctx) -> Option<Report> {
    let sp = spec_for(&ctx.prop)?;
    let mut rep = run_spec(ctx, &sp);
    match ctx.prop.as_str() {
        "C08" => {
            rep.merge(run_cases(ctx, 2, 4, "", |i, _seed, r| exhaustion_u16(i, r)));
            rep.merge(run_cases(ctx, 3, 8, "", |i, _seed, r| resume_oversize_ids(i, r)));
        }
        "C14" => rep.merge(run_cases(ctx, 2, 8, "", |i, _seed, r| size_boundaries(i, r, "C14"))),
        "C05" => {
            rep.merge(run_cases(ctx, 4, 4, "", |i, _seed, r| huge_frames(i, r)));
            rep.merge(run_cases(ctx, 5, 2, "", |i, _seed, r| many_exchanges_u32(i, r, "C05")));
            rep.merge(run_cases(ctx, 8, 2, "", |i, _seed, r| repeated_property_frames(i, r)));
        }
        "C12" => {
            rep.merge(run_cases(ctx, 5, 2, "", |i, _seed, r| many_exchanges_u32(i, r, "C12")));
            rep.merge(run_cases(ctx, 6, 8, "", |i, _seed, r| window_fill(i, r)));
        }
        "C07" => rep.merge(run_cases(ctx, 7, 2, "", |i, _seed, r| mid_size_alias_publish(i, r))),
        "C19" => rep.merge(run_cases(ctx, 10, 8, "", |i, _seed, r| refused_disconnect_then_expiry(i, r))),
        "C13" => {
            rep.merge(run_cases(ctx, 9, 8, "", |i, _seed, r| many_aliases(i, r)));
            // the size-boundary workload also decides whether an alias the library could not put on the wire was recorded
            rep.merge(run_cases(ctx, 2, 8, "", |i, _seed, r| size_boundaries(i, r, "C13")));
        }
        _ => {}
    }
    Some(rep)
}

/// C08: every id 1..=65535 can be in use at once; exhaustion is an error; a released id comes back
fn exhaustion_u16(i: u64, rep: &mut Report) {
    use crate::conn::*;
    let role = [Role::Client, Role::Server, Role::Any, Role::Client][i as usize % 4];
    let ver = if i % 2 == 0 { LVer::V5 } else { LVer::V311 };
    let mut c = new_conn(role, 2, ver);
    rep.evaluations += 1;
    rep.hit("P6-all-ids-usable-then-exhaustion-reported");
    let mut seen = vec![false; 65536];
    let fail = |rep: &mut Report, what: String| {
        rep.violate(Violation { property: "C08".into(), rule: "P6-all-ids-usable-then-exhaustion-reported".into(), signature: "C08.P6-all-ids-usable-then-exhaustion-reported".into(), what, witness: json!({"role": format!("{:?}", role)}), case: (2, i) });
    };
    // hold a few ids first through register, at both ends
    for id in [1u32, 65535, 300] {
        if i >= 2 && !matches!(c.register(id), Ok(Ok(()))) {
            return fail(rep, format!("register_packet_id({}) failed on a fresh object", id));
        }
        if i >= 2 {
            seen[id as usize] = true;
        }
    }
    let already = seen.iter().filter(|x| **x).count();
    for k in 0..(65535 - already) {
        match c.acquire() {
            Ok(Ok(id)) => {
                if id == 0 || id > 65535 || seen[id as usize] {
                    return fail(rep, format!("acquire #{} returned {} which is zero, out of range or already in use", k, id));
                }
                seen[id as usize] = true;
            }
            other => return fail(rep, format!("acquire #{} failed although only {} ids are in use: {:?}", k, k + already, other.map_err(|p| p.message))),
        }
    }
    rep.api_calls += 65535;
    match c.acquire() {
        Ok(Err(_)) => {}
        other => return fail(rep, format!("acquire with all 65535 ids in use did not report exhaustion: {:?}", other.map_err(|p| p.message))),
    }
    if matches!(c.register(77), Ok(Ok(()))) {
        return fail(rep, "register_packet_id(77) succeeded with all ids in use".into());
    }
    for id in [65535u32, 1, 40000] {
        let evs = c.release(id).unwrap_or_default();
        if evs != vec![Ev::Released(id)] {
            return fail(rep, format!("release_packet_id({}) returned {}", id, evs_short(&evs)));
        }
    }
    // smallest free first
    for want in [1u32, 40000, 65535] {
        match c.acquire() {
            Ok(Ok(id)) if id == want => {}
            other => return fail(rep, format!("after releasing 65535, 1, 40000 acquire returned {:?}, expected {}", other.map_err(|p| p.message), want)),
        }
    }
    rep.distinct_case(format!("exhaustion {:?} {:?} {}", role, ver, i).as_bytes());
}

/// C08 (directed): a persistent v5.0 session holding one exchange in every stage (PUBLISH awaiting PUBACK, PUBLISH
/// awaiting PUBREC, bare PUBREL stored, PUBREL with properties stored) is resumed under a Maximum Packet Size that makes
/// every subset of them oversize; the shared model judges the releases of the dropped ones, then ids are acquired again
fn resume_oversize_ids(i: u64, rep: &mut Report) {
    use crate::apkt::*;
    use crate::conn::*;
    use crate::refcodec as rc;
    let idw = if i % 2 == 0 { 2 } else { 4 };
    let as_client = (i / 2) % 2 == 0;
    let role = if i / 4 == 0 { if as_client { Role::Client } else { Role::Server } } else { Role::Any };
    let ver = Ver::V5;
    let known = known_signatures();
    for limit in [1u32, 3, 4, 5, 6, 7, 9, 11, 12, 13, 20, 30, 31, 32, 33, 60, 268_435_455] {
        for auto_pub in [false, true] {
            let sc = Scenario { role, idw, ver: LVer::V5, focus: Focus::Ids, max_ops: 0, hostile_pct: 0, as_client, speak: Ver::V5, connect_first: false };
            let mut d = Driver::new(sc, 11);
            d.known = known.clone();
            if auto_pub {
                d.set_opt(Opt::AutoPubResponse, true);
            }
            let handshake = |d: &mut Driver, limit: u32, sp: bool| {
                let connect = Pkt::Connect { ver, clean: false, keep_alive: 0, client_id: b"c".to_vec(), will: None, user: None, pass: None, props: if as_client { vec![p_u32(P_SEI, 50)] } else { vec![p_u32(P_SEI, 50), p_u32(P_MPS, limit)] } };
                let connack = Pkt::Connack { ver, sp, code: 0, props: if as_client { vec![p_u32(P_MPS, limit)] } else { vec![] } };
                if as_client {
                    d.send(connect);
                    d.feed(&rc::encode(&connack, idw), &[]);
                } else {
                    d.feed(&rc::encode(&connect, idw), &[]);
                    d.send(connack);
                }
            };
            handshake(&mut d, 268_435_455, false);
            let mut ids = Vec::new();
            for (k, qos) in [1u8, 2, 2, 2].iter().enumerate() {
                let Some(id) = d.acquire() else { continue };
                ids.push(id);
                d.send(Pkt::Publish { ver, dup: false, qos: *qos, retain: false, topic: b"a".to_vec(), id: Some(id), props: vec![], payload: vec![b'p'; k] });
            }
            if ids.len() == 4 {
                // third: PUBREC, bare PUBREL; fourth: PUBREC, PUBREL with a Reason String
                for (n, id) in [ids[2], ids[3]].into_iter().enumerate() {
                    d.feed(&rc::encode(&Pkt::Ack { ver, kind: AckKind::Pubrec, id, code: None, props: None }, idw), &[]);
                    if !auto_pub {
                        let props = if n == 1 { Some(vec![p_str(31, "a reason that makes it big")]) } else { None };
                        d.send(Pkt::Ack { ver, kind: AckKind::Pubrel, id, code: if n == 1 { Some(0) } else { None }, props });
                    }
                }
            }
            d.closed();
            handshake(&mut d, limit, true);
            // the ids of what was dropped are free again, the others are not
            for _ in 0..5 {
                d.acquire();
            }
            for id in ids.iter() {
                d.feed(&rc::encode(&Pkt::Ack { ver, kind: AckKind::Pubcomp, id: *id, code: None, props: None }, idw), &[]);
            }
            d.closed();
            let out = d.finish();
            rep.evaluations += 1;
            rep.api_calls += out.api_calls;
            for (k, v) in out.hits.iter() {
                if k.starts_with('P') {
                    rep.hit_n(k, *v);
                }
            }
            rep.distinct_case(format!("resume oversize {:?} {} {} limit={} auto_pub={}", role, idw, as_client, limit, auto_pub).as_bytes());
            for f in out.found.iter().filter(|f| f.property == "C08") {
                rep.violate(Violation { property: "C08".into(), rule: f.rule.to_string(), signature: f.signature(), what: format!("[resume under Maximum Packet Size {}] {}", limit, f.what), witness: json!({"history": trace_json(&out.trace)}), case: (3, i) });
            }
        }
    }
}

/// C05 (directed, extreme values): frames whose Remaining Length is at or next to the largest encodable value
/// (268 435 455), among them an alias-only PUBLISH whose alias is bound (the resolved packet would need a longer
/// Remaining Length than exists) - no panic, consumed exactly, delivered or reported
fn huge_frames(i: u64, rep: &mut Report) {
    use crate::apkt::*;
    use crate::conn::*;
    use crate::refcodec as rc;
    let idw = if i % 2 == 0 { 2 } else { 4 };
    let as_client = (i / 2) % 2 == 0;
    let role = if as_client { Role::Client } else { Role::Server };
    let ver = Ver::V5;
    const MAXRL: usize = 268_435_455;
    for (what, rl, alias_only, qos) in [("alias-only PUBLISH, Remaining Length max", MAXRL, true, 0u8), ("alias-only PUBLISH, Remaining Length max-10, QoS 1", MAXRL - 10, true, 1), ("PUBLISH with topic, Remaining Length max", MAXRL, false, 0), ("alias-only PUBLISH just small enough", MAXRL - 16, true, 2), ("alias-only PUBLISH, resolved packet one below the maximum", MAXRL - 15, true, 0), ("alias-only PUBLISH, resolved packet exactly the maximum", MAXRL - 14, true, 0), ("alias-only PUBLISH, resolved packet one above the maximum", MAXRL - 13, true, 1)] {
        let mut c = new_conn(role, idw, LVer::V5);
        let connect = Pkt::Connect { ver, clean: true, keep_alive: 0, client_id: b"c".to_vec(), will: None, user: None, pass: None, props: if as_client { vec![p_u16(P_TAM, 4)] } else { vec![] } };
        let connack = Pkt::Connack { ver, sp: false, code: 0, props: if as_client { vec![] } else { vec![p_u16(P_TAM, 4)] } };
        let ok = if as_client { c.send(&connect, Via::Dynamic).is_ok() && c.recv(&rc::encode(&connack, idw)).is_ok() } else { c.recv(&rc::encode(&connect, idw)).is_ok() && c.send(&connack, Via::Dynamic).is_ok() };
        if !ok {
            continue;
        }
        // bind alias 1 to a 14-byte topic
        let _ = c.recv(&rc::encode(&Pkt::Publish { ver, dup: false, qos: 0, retain: false, topic: b"topic/long/abc".to_vec(), id: None, props: vec![p_u16(P_TA, 1)], payload: vec![] }, idw));
        let mut f: Vec<u8> = vec![0x30 | (qos << 1)];
        rc::vbi_encode(rl as u32, &mut f);
        let head = f.len();
        if alias_only {
            f.extend_from_slice(&[0, 0]);
        } else {
            f.extend_from_slice(&[0, 1, b't']);
        }
        if qos > 0 {
            f.extend_from_slice(&vec![0u8; idw - 1]);
            f.push(5);
        }
        if alias_only {
            f.extend_from_slice(&[3, 0x23, 0, 1]);
        } else {
            f.push(0);
        }
        f.resize(head + rl, b'p');
        rep.evaluations += 1;
        rep.api_calls += 1;
        rep.hit("X9-frames-at-the-largest-remaining-length");
        rep.distinct_case(format!("huge {} {:?} {}", what, role, idw).as_bytes());
        let fail = |rep: &mut Report, sig: &str, whatf: String| {
            rep.violate(Violation { property: "C05".into(), rule: "X9-frames-at-the-largest-remaining-length".into(), signature: format!("C05.X9-frames-at-the-largest-remaining-length@{}", sig), what: whatf, witness: json!({"role": format!("{:?}", role), "id_width": idw, "frame": what, "remaining_length": rl}), case: (4, i) });
        };
        match c.recv(&f) {
            Err(pn) => fail(rep, &format!("panic;alias_only={}", alias_only), format!("recv of a {} ({} bytes) panicked: {}", what, f.len(), pn.message)),
            Ok((evs, n)) => {
                let delivered = evs.iter().any(|e| matches!(e, Ev::Recv { .. }));
                let err = evs.iter().any(|e| e.is_error());
                if n != f.len() {
                    fail(rep, "consumed", format!("recv of a {} consumed {} of {} bytes", what, n, f.len()));
                } else if !delivered && !err {
                    fail(rep, "silent", format!("recv of a {} neither delivered nor reported: {}", what, evs_short(&evs)));
                }
            }
        }
    }
}

/// C05 (directed, many at once): a frame that repeats one property 256 / 257 / 1000 times, in every property-carrying
/// location, fed to a connection that can receive that packet kind: no panic, consumed exactly, delivered or reported
fn repeated_property_frames(i: u64, rep: &mut Report) {
    use crate::apkt::*;
    use crate::checks::c18::{carrier, legal_value, with_auth_method};
    use crate::conn::*;
    use crate::refcodec as rc;
    let idw = if i == 0 { 2 } else { 4 };
    let ver = Ver::V5;
    for (id, _, name) in PROP_TABLE.iter() {
        for loc in ALL_LOCS {
            if !prop_allowed(*id, loc) {
                continue;
            }
            for count in [256usize, 257, 1000] {
                let p = Prop { id: *id, val: legal_value(*id) };
                let list: Vec<Prop> = (0..count).map(|_| p.clone()).collect();
                let (props, auth_has_method) = if *id == 21 { (list, false) } else { with_auth_method(loc, list) };
                let a = carrier(loc, props, auth_has_method, 0);
                let frame = rc::encode(&a, idw);
                // who receives this kind, and in which state
                let to_client = matches!(loc, Loc::Connack | Loc::Suback | Loc::Unsuback);
                let role = if to_client { Role::Client } else { Role::Server };
                let mut c = new_conn(role, idw, LVer::V5);
                let connect = Pkt::Connect { ver, clean: true, keep_alive: 0, client_id: b"c".to_vec(), will: None, user: None, pass: None, props: vec![] };
                let connack = Pkt::Connack { ver, sp: false, code: 0, props: vec![] };
                match loc {
                    Loc::Connect | Loc::Will => {}
                    Loc::Connack => {
                        let _ = c.send(&connect, Via::Dynamic);
                    }
                    _ if to_client => {
                        let _ = c.send(&connect, Via::Dynamic);
                        let _ = c.recv(&rc::encode(&connack, idw));
                    }
                    _ => {
                        let _ = c.recv(&rc::encode(&connect, idw));
                        let _ = c.send(&connack, Via::Dynamic);
                    }
                }
                rep.evaluations += 1;
                rep.api_calls += 1;
                rep.hit("X11-property-repeated-hundreds-of-times");
                rep.distinct_case(format!("repeated {} {} {:?} {}", id, count, loc, idw).as_bytes());
                let mut fail = |rep: &mut Report, sig: String, what: String| {
                    rep.violate(Violation { property: "C05".into(), rule: "X11-property-repeated-hundreds-of-times".into(), signature: format!("C05.X11-property-repeated-hundreds-of-times@{}", sig), what, witness: json!({"property": name, "location": format!("{:?}", loc), "copies": count, "id_width": idw}), case: (8, i) });
                };
                match c.recv(&frame) {
                    Err(pn) => fail(rep, format!("panic;loc={:?}", loc), format!("recv of a {:?} packet carrying {} x{} panicked: {}", loc, name, count, pn.message)),
                    Ok((evs, n)) => {
                        if n != frame.len() {
                            fail(rep, format!("consumed;loc={:?}", loc), format!("recv of a {:?} packet carrying {} x{} consumed {} of {} bytes", loc, name, count, n, frame.len()));
                        } else if !evs.iter().any(|e| e.is_error()) && !evs.iter().any(|e| matches!(e, Ev::Recv { .. })) {
                            fail(rep, format!("silent;loc={:?}", loc), format!("recv of a {:?} packet carrying {} x{} neither delivered nor reported: {}", loc, name, count, evs_short(&evs)));
                        }
                    }
                }
            }
        }
    }
}

/// C05 / C12 (directed, extreme values): a u32-id session with more stored exchanges than a u16 can count (65 536 + 3) is
/// resumed under Receive Maximum 10: no vacancy, nothing more accepted; then the peer acknowledges every one of them - no
/// panic, and the vacancy comes back only when fewer than 10 are left
fn many_exchanges_u32(i: u64, rep: &mut Report, prop: &str) {
    use crate::apkt::*;
    use crate::conn::*;
    use crate::refcodec as rc;
    let as_client = i % 2 == 0;
    let role = if as_client { Role::Client } else { Role::Any };
    let ver = Ver::V5;
    let idw = 4;
    let n: u32 = 65_536 + 3;
    let mut c = new_conn(role, idw, LVer::V5);
    let rule = if prop == "C12" { "F4-receive-maximum-with-more-than-65535-exchanges" } else { "X10-more-than-65535-exchanges" };
    let fail = |rep: &mut Report, sig: &str, what: String| {
        // (C05 speaks about panics and wedged connections; the counting is C12's subject)
        if prop == "C05" && !sig.starts_with("panic") {
            rep.count("many_exchanges_ended_by_a_C12_matter");
            return;
        }
        rep.violate(Violation { property: prop.into(), rule: rule.into(), signature: format!("{}.{}@{}", prop, rule, sig), what, witness: json!({"role": format!("{:?}", role), "stored": n}), case: (5, i) });
    };
    let handshake = |c: &mut Box<dyn Conn>, rm: Option<u16>, sp: bool| -> Result<Vec<Ev>, String> {
        let rmp: Vec<Prop> = rm.map(|m| vec![p_u16(P_RM, m)]).unwrap_or_default();
        let mut cp = vec![p_u32(P_SEI, 100)];
        if !as_client {
            cp.extend(rmp.clone());
        }
        let connect = Pkt::Connect { ver, clean: false, keep_alive: 0, client_id: b"c".to_vec(), will: None, user: None, pass: None, props: cp };
        let connack = Pkt::Connack { ver, sp, code: 0, props: if as_client { rmp } else { vec![] } };
        if as_client {
            c.send(&connect, Via::Dynamic).map_err(|p| p.message)?;
            c.recv(&rc::encode(&connack, idw)).map(|x| x.0).map_err(|p| p.message)
        } else {
            c.recv(&rc::encode(&connect, idw)).map_err(|p| p.message)?;
            match c.send(&connack, Via::Dynamic).map_err(|p| p.message)? {
                SendOutcome::Events(e) => Ok(e),
                _ => Err("CONNACK not built".into()),
            }
        }
    };
    rep.evaluations += 1;
    rep.hit(rule);
    rep.distinct_case(format!("many exchanges {:?} {}", role, prop).as_bytes());
    if let Err(e) = handshake(&mut c, None, false) {
        return fail(rep, "setup", e);
    }
    for _ in 0..n {
        let Ok(Ok(id)) = c.acquire() else { return fail(rep, "setup", "acquire failed".into()) };
        let p = Pkt::Publish { ver, dup: false, qos: 1, retain: false, topic: b"t".to_vec(), id: Some(id), props: vec![], payload: vec![] };
        match c.send(&p, Via::Dynamic) {
            Ok(SendOutcome::Events(e)) if !e.iter().any(|x| x.is_error()) => {}
            other => return fail(rep, "setup", format!("publish refused without a Receive Maximum: {:?}", other.map(|_| ()).map_err(|p| p.message))),
        }
    }
    rep.api_calls += 2 * n as u64;
    let _ = c.notify_closed();
    let resent = match handshake(&mut c, Some(10), true) {
        Ok(e) => e.iter().filter(|x| matches!(x, Ev::Send { pkt: Pkt::Publish { .. }, .. })).count(),
        Err(e) => return fail(rep, "panic;where=resume", format!("resume with {} stored exchanges panicked: {}", n, e)),
    };
    if resent != n as usize {
        return fail(rep, "resend", format!("{} of {} stored PUBLISHes retransmitted", resent, n));
    }
    match c.vacancy() {
        Ok(Some(0)) => {}
        other => return fail(rep, "vacancy-after-resume", format!("{} exchanges are incomplete, Receive Maximum 10, but get_receive_maximum_vacancy_for_send() = {:?}", n, other.map_err(|p| p.message))),
    }
    // nothing more is accepted
    if let Ok(Ok(id)) = c.acquire() {
        let p = Pkt::Publish { ver, dup: false, qos: 1, retain: false, topic: b"t".to_vec(), id: Some(id), props: vec![], payload: vec![] };
        match c.send(&p, Via::Dynamic) {
            Ok(SendOutcome::Events(e)) if e.iter().any(|x| matches!(x, Ev::Error(m) if m == "ReceiveMaximumExceeded")) => {}
            other => return fail(rep, "accepted-beyond-limit", format!("a further QoS 1 PUBLISH with {} exchanges incomplete and Receive Maximum 10: {:?}", n, other.map(|o| format!("{:?}", o)).map_err(|p| p.message))),
        }
    }
    // the peer acknowledges all of them
    for k in 1..=n {
        let frame = rc::encode(&Pkt::Ack { ver, kind: AckKind::Puback, id: k, code: None, props: None }, idw);
        match c.recv(&frame) {
            Err(pn) => return fail(rep, "panic;where=ack", format!("recv of PUBACK #{} panicked: {}", k, pn.message)),
            Ok((evs, _)) => {
                if evs.iter().any(|e| e.is_error()) {
                    return fail(rep, "ack-refused", format!("PUBACK #{} for a retransmitted PUBLISH: {}", k, evs_short(&evs)));
                }
            }
        }
        let left = n - k;
        if left == 12 || left == 10 || left == 9 || left == 3 || left == 0 {
            let want = if left >= 10 { 0 } else { 10 - left as u16 };
            match c.vacancy() {
                Ok(Some(v)) if v == want => {}
                other => return fail(rep, "vacancy-while-acking", format!("{} exchanges left, Receive Maximum 10: vacancy {:?}, expected {}", left, other.map_err(|p| p.message), want)),
            }
        }
    }
    rep.api_calls += n as u64;
}

/// C12 (directed, many at once): a Receive Maximum window of M in {255, 256, 257, 300, 1000} is filled with fresh QoS>0
/// PUBLISHes on ONE connection: the vacancy goes down by one per PUBLISH, the (M+1)-th is refused, every acknowledgement
/// gives one slot back (QoS 1 and QoS 2 mixed, acknowledged in a scattered order)
fn window_fill(i: u64, rep: &mut Report) {
    use crate::apkt::*;
    use crate::conn::*;
    use crate::refcodec as rc;
    let idw = if i % 2 == 0 { 2 } else { 4 };
    let as_client = (i / 2) % 2 == 0;
    let role = if (i / 4) % 2 == 0 { if as_client { Role::Client } else { Role::Server } } else { Role::Any };
    let ver = Ver::V5;
    let rule = "F5-window-of-hundreds-filled-and-drained";
    for m in [255u16, 256, 257, 300, 1000] {
        let mut c = new_conn(role, idw, LVer::V5);
        let connect = Pkt::Connect { ver, clean: true, keep_alive: 0, client_id: b"c".to_vec(), will: None, user: None, pass: None, props: if as_client { vec![] } else { vec![p_u16(P_RM, m)] } };
        let connack = Pkt::Connack { ver, sp: false, code: 0, props: if as_client { vec![p_u16(P_RM, m)] } else { vec![] } };
        let ok = if as_client { c.send(&connect, Via::Dynamic).is_ok() && c.recv(&rc::encode(&connack, idw)).is_ok() } else { c.recv(&rc::encode(&connect, idw)).is_ok() && c.send(&connack, Via::Dynamic).is_ok() };
        if !ok {
            continue;
        }
        rep.evaluations += 1;
        rep.hit(rule);
        rep.distinct_case(format!("window {:?} {} {} {}", role, idw, as_client, m).as_bytes());
        let mut fail = |rep: &mut Report, sig: &str, what: String| {
            rep.violate(Violation { property: "C12".into(), rule: rule.into(), signature: format!("C12.{}@{}", rule, sig), what, witness: json!({"role": format!("{:?}", role), "id_width": idw, "receive_maximum": m}), case: (6, i) });
        };
        let mut ids: Vec<(u32, u8)> = Vec::new();
        let mut bad = false;
        for k in 0..m as u32 {
            let Ok(Ok(id)) = c.acquire() else { break };
            let qos = 1 + (k % 2) as u8;
            let p = Pkt::Publish { ver, dup: false, qos, retain: false, topic: b"t".to_vec(), id: Some(id), props: vec![], payload: vec![] };
            match c.send(&p, Via::Dynamic) {
                Ok(SendOutcome::Events(e)) if !e.iter().any(|x| x.is_error()) => ids.push((id, qos)),
                other => {
                    fail(rep, "refused-below-limit", format!("PUBLISH #{} of a window of {} refused: {:?}", k + 1, m, other.map(|o| format!("{:?}", o)).map_err(|p| p.message)));
                    bad = true;
                    break;
                }
            }
            let want = m - (k as u16 + 1);
            match c.vacancy() {
                Ok(Some(v)) if v == want => {}
                other => {
                    fail(rep, "vacancy-while-filling", format!("after {} unacknowledged QoS>0 PUBLISHes, Receive Maximum {}: vacancy {:?}, expected {}", k + 1, m, other.map_err(|p| p.message), want));
                    bad = true;
                    break;
                }
            }
        }
        rep.api_calls += 3 * m as u64;
        if bad {
            continue;
        }
        // one more must be refused
        if let Ok(Ok(id)) = c.acquire() {
            let p = Pkt::Publish { ver, dup: false, qos: 1, retain: false, topic: b"t".to_vec(), id: Some(id), props: vec![], payload: vec![] };
            match c.send(&p, Via::Dynamic) {
                Ok(SendOutcome::Events(e)) if e.iter().any(|x| matches!(x, Ev::Error(s) if s == "ReceiveMaximumExceeded")) && !e.iter().any(|x| matches!(x, Ev::Send { .. })) => {}
                other => {
                    fail(rep, "accepted-at-limit", format!("PUBLISH #{} with Receive Maximum {}: {:?}", m as u32 + 1, m, other.map(|o| format!("{:?}", o)).map_err(|p| p.message)));
                    continue;
                }
            }
        }
        // drain in a scattered order
        let n = ids.len();
        let mut order: Vec<usize> = (0..n).collect();
        for k in 0..n {
            order.swap(k, (k * 7919 + 13) % n);
        }
        let mut left = n as u32;
        for &k in &order {
            let (id, qos) = ids[k];
            let frames: Vec<Pkt> = if qos == 1 { vec![Pkt::Ack { ver, kind: AckKind::Puback, id, code: None, props: None }] } else { vec![Pkt::Ack { ver, kind: AckKind::Pubrec, id, code: Some(0x80), props: None }] };
            for f in frames {
                if let Err(pn) = c.recv(&rc::encode(&f, idw)) {
                    fail(rep, "panic", pn.message);
                    bad = true;
                }
            }
            if bad {
                break;
            }
            left -= 1;
            let want = (m as u32 - left) as u16;
            match c.vacancy() {
                Ok(Some(v)) if v == want => {}
                other => {
                    fail(rep, "vacancy-while-draining", format!("{} exchanges left, Receive Maximum {}: vacancy {:?}, expected {}", left, m, other.map_err(|p| p.message), want));
                    break;
                }
            }
        }
    }
}

/// C07 (directed, middle of a huge range): an alias-only QoS 2 PUBLISH of 17 MB / 100 MB whose alias is bound fits the
/// largest Remaining Length with its resolved topic: it must be notified; and whatever happens, an id the application was
/// never told about must not sit in the handled set (its retransmission after a resume would be swallowed)
fn mid_size_alias_publish(i: u64, rep: &mut Report) {
    use crate::apkt::*;
    use crate::conn::*;
    use crate::refcodec as rc;
    let idw = 2;
    let as_client = i % 2 == 0;
    let role = if as_client { Role::Client } else { Role::Server };
    let ver = Ver::V5;
    let rule = "Q5-handled-implies-notified";
    for rl in [17_000_000usize, 100_000_000] {
        let mut c = new_conn(role, idw, LVer::V5);
        let connect = Pkt::Connect { ver, clean: false, keep_alive: 0, client_id: b"c".to_vec(), will: None, user: None, pass: None, props: if as_client { vec![p_u32(P_SEI, 100), p_u16(P_TAM, 4)] } else { vec![p_u32(P_SEI, 100)] } };
        let connack = Pkt::Connack { ver, sp: false, code: 0, props: if as_client { vec![] } else { vec![p_u16(P_TAM, 4)] } };
        let ok = if as_client { c.send(&connect, Via::Dynamic).is_ok() && c.recv(&rc::encode(&connack, idw)).is_ok() } else { c.recv(&rc::encode(&connect, idw)).is_ok() && c.send(&connack, Via::Dynamic).is_ok() };
        if !ok {
            continue;
        }
        let _ = c.recv(&rc::encode(&Pkt::Publish { ver, dup: false, qos: 0, retain: false, topic: b"topic/long/abc".to_vec(), id: None, props: vec![p_u16(P_TA, 1)], payload: vec![] }, idw));
        let mut f: Vec<u8> = vec![0x34];
        rc::vbi_encode(rl as u32, &mut f);
        let head = f.len();
        f.extend_from_slice(&[0, 0, 0, 9, 3, 0x23, 0, 1]);
        f.resize(head + rl, b'p');
        rep.evaluations += 1;
        rep.api_calls += 1;
        rep.hit(rule);
        rep.distinct_case(format!("mid-size {:?} {}", role, rl).as_bytes());
        let mut fail = |rep: &mut Report, sig: &str, what: String| {
            rep.violate(Violation { property: "C07".into(), rule: rule.into(), signature: format!("C07.{}@{}", rule, sig), what, witness: json!({"role": format!("{:?}", role), "remaining_length": rl}), case: (7, i) });
        };
        match c.recv(&f) {
            Err(pn) => fail(rep, "panic", format!("recv of a {}-byte alias-only QoS 2 PUBLISH panicked: {}", f.len(), pn.message)),
            Ok((evs, _)) => {
                let delivered = evs.iter().any(|e| matches!(e, Ev::Recv { pkt: Pkt::Publish { .. }, .. }));
                let handled = c.handled().unwrap_or_default();
                if !delivered {
                    fail(rep, &format!("not-delivered;in_handled_set={}", handled.contains(&9)), format!("a well-formed {}-byte alias-only QoS 2 PUBLISH (id 9, alias bound) was not delivered: {}; handled set afterwards {:?}", f.len(), evs_short(&evs), handled));
                }
            }
        }
    }
}

/// C13 (directed, many at once): dozens of topics through a send-side alias table of 2 .. 40 entries with automatic
/// mapping / replacement, explicit rebinding of aliases in use in between, three rounds in scattered orders: the shared
/// model keeps the receiver's table and judges every PUBLISH that goes out (AL1-AL3)
fn many_aliases(i: u64, rep: &mut Report) {
    use crate::apkt::*;
    use crate::conn::*;
    use crate::refcodec as rc;
    let idw = if i % 2 == 0 { 2 } else { 4 };
    let as_client = (i / 2) % 2 == 0;
    let role = if (i / 4) % 2 == 0 { if as_client { Role::Client } else { Role::Server } } else { Role::Any };
    let ver = Ver::V5;
    let known = known_signatures();
    for tam in [2u16, 15, 16, 17, 18, 32, 40] {
        for mode in 0..3u8 {
            let sc = Scenario { role, idw, ver: LVer::V5, focus: Focus::Alias, max_ops: 0, hostile_pct: 0, as_client, speak: Ver::V5, connect_first: false };
            let mut d = Driver::new(sc, 13);
            d.known = known.clone();
            // mode 0: automatic mapping; 1: automatic replacement of aliases the application registered; 2: both
            if mode != 1 {
                d.set_opt(Opt::AutoMapTopicAlias, true);
            }
            if mode != 0 {
                d.set_opt(Opt::AutoReplaceTopicAlias, true);
            }
            let connect = Pkt::Connect { ver, clean: true, keep_alive: 0, client_id: b"c".to_vec(), will: None, user: None, pass: None, props: if as_client { vec![] } else { vec![p_u16(P_TAM, tam)] } };
            let connack = Pkt::Connack { ver, sp: false, code: 0, props: if as_client { vec![p_u16(P_TAM, tam)] } else { vec![] } };
            if as_client {
                d.send(connect);
                d.feed(&rc::encode(&connack, idw), &[]);
            } else {
                d.feed(&rc::encode(&connect, idw), &[]);
                d.send(connack);
            }
            let ntopics = 45usize;
            let mut x: u64 = 0x9E37 + tam as u64 * 31 + mode as u64;
            for round in 0..3 {
                for step in 0..ntopics {
                    x = x.wrapping_mul(6364136223846793005).wrapping_add(1442695040888963407);
                    let k = if round == 0 { step } else { (x >> 33) as usize % ntopics };
                    let topic = format!("demo/topic/{}", k).into_bytes();
                    let mut props = vec![];
                    // now and then the application binds an alias itself - possibly one that is in use
                    if (x >> 20) % 7 == 0 {
                        props.push(p_u16(P_TA, 1 + ((x >> 40) as u16 % tam)));
                    }
                    d.send(Pkt::Publish { ver, dup: false, qos: 0, retain: false, topic, id: None, props, payload: vec![b'm'] });
                }
            }
            let out = d.finish();
            rep.evaluations += 1;
            rep.api_calls += out.api_calls;
            for (k, v) in out.hits.iter() {
                if k.starts_with("AL") {
                    rep.hit_n(k, *v);
                }
            }
            rep.distinct_case(format!("many aliases {:?} {} {} tam={} mode={}", role, idw, as_client, tam, mode).as_bytes());
            for f in out.found.iter().filter(|f| f.property == "C13") {
                rep.violate(Violation { property: "C13".into(), rule: f.rule.to_string(), signature: f.signature(), what: format!("[45 topics through an alias table of {}, mode {}] {}", tam, mode, f.what), witness: json!({"history_tail": trace_json(&out.trace[out.trace.len().saturating_sub(40)..])}), case: (9, i) });
            }
        }
    }
}

/// C19 (directed): a DISCONNECT of the application that is refused (too large for the peer, or carrying what the peer's
/// limit cannot take) leaves the connection established: a keep-alive expiry afterwards still ends in a close request, and
/// a DISCONNECT that fits is still accepted and accompanied by one
fn refused_disconnect_then_expiry(i: u64, rep: &mut Report) {
    use crate::apkt::*;
    use crate::conn::*;
    use crate::refcodec as rc;
    let idw = if i % 2 == 0 { 2 } else { 4 };
    let as_client = (i / 2) % 2 == 0;
    let role = if (i / 4) % 2 == 0 { if as_client { Role::Client } else { Role::Server } } else { Role::Any };
    let ver = Ver::V5;
    let known = known_signatures();
    for limit in [2u32, 3, 4, 6, 10, 20, 30] {
        for then in 0..3u8 {
            let sc = Scenario { role, idw, ver: LVer::V5, focus: Focus::Timers, max_ops: 0, hostile_pct: 0, as_client, speak: Ver::V5, connect_first: false };
            let mut d = Driver::new(sc, 19);
            d.known = known.clone();
            if as_client {
                d.set_pingresp_timeout(500);
            }
            let connect = Pkt::Connect { ver, clean: true, keep_alive: 10, client_id: b"c".to_vec(), will: None, user: None, pass: None, props: if as_client { vec![] } else { vec![p_u32(P_MPS, limit)] } };
            let connack = Pkt::Connack { ver, sp: false, code: 0, props: if as_client { vec![p_u32(P_MPS, limit)] } else { vec![] } };
            if as_client {
                d.send(connect);
                d.feed(&rc::encode(&connack, idw), &[]);
                d.send(Pkt::Pingreq { ver });
            } else {
                d.feed(&rc::encode(&connect, idw), &[]);
                d.send(connack);
            }
            // a DISCONNECT with a Reason String of 40 bytes never fits these limits
            d.send(Pkt::Disconnect { ver, code: Some(0x04), props: Some(vec![p_str(31, "a reason string that is forty bytes long")]) });
            match then {
                0 => {
                    let k = if as_client { Timer::PingrespRecv } else { Timer::PingreqRecv };
                    if d.model.armed.contains(&k) {
                        d.timer(k);
                    }
                }
                1 => {
                    d.send(Pkt::Disconnect { ver, code: None, props: None });
                }
                _ => {
                    // traffic goes on
                    d.feed(&rc::encode(&Pkt::Publish { ver, dup: false, qos: 0, retain: false, topic: b"a".to_vec(), id: None, props: vec![], payload: vec![] }, idw), &[]);
                    let k = if as_client { Timer::PingrespRecv } else { Timer::PingreqRecv };
                    if d.model.armed.contains(&k) {
                        d.timer(k);
                    }
                }
            }
            d.closed();
            let out = d.finish();
            rep.evaluations += 1;
            rep.api_calls += out.api_calls;
            for (k, v) in out.hits.iter() {
                if k.starts_with('K') {
                    rep.hit_n(k, *v);
                }
            }
            rep.hit("K4-refused-disconnect-leaves-the-connection-established");
            rep.distinct_case(format!("refused disconnect {:?} {} {} limit={} then={}", role, idw, as_client, limit, then).as_bytes());
            for f in out.found.iter().filter(|f| f.property == "C19") {
                rep.violate(Violation { property: "C19".into(), rule: f.rule.to_string(), signature: f.signature(), what: format!("[after a refused oversize DISCONNECT, peer Maximum Packet Size {}] {}", limit, f.what), witness: json!({"history": trace_json(&out.trace)}), case: (10, i) });
            }
        }
    }
}

/// C14: limits exactly at size-1 / size / size+1 of the very packet, for every send path
fn size_boundaries(i: u64, rep: &mut Report, prop: &'static str) {
    use crate::apkt::*;
    use crate::conn::*;
    use crate::refcodec as rc;
    let idw = if i % 2 == 0 { 2 } else { 4 };
    let as_client = (i / 2) % 2 == 0;
    let role = if i / 4 == 0 { if as_client { Role::Client } else { Role::Server } } else { Role::Any };
    let ver = Ver::V5;
    let known = known_signatures();
    let mk = |limit: u32, tam: u16, auto_map: bool, auto_pub: bool| -> Driver {
        let sc = Scenario { role, idw, ver: LVer::V5, focus: Focus::Size, max_ops: 0, hostile_pct: 0, as_client, speak: Ver::V5, connect_first: false };
        let mut d = Driver::new(sc, 7);
        d.known = known.clone();
        if auto_map {
            d.set_opt(Opt::AutoMapTopicAlias, true);
        }
        if auto_pub {
            d.set_opt(Opt::AutoPubResponse, true);
        }
        d.set_opt(Opt::AutoPingResponse, true);
        let connect = Pkt::Connect { ver, clean: false, keep_alive: 0, client_id: b"c".to_vec(), will: None, user: None, pass: None, props: if as_client { vec![p_u32(P_SEI, 50)] } else { vec![p_u32(P_SEI, 50), p_u32(P_MPS, limit), p_u16(P_TAM, tam)] } };
        let connack = Pkt::Connack { ver, sp: false, code: 0, props: if as_client { vec![p_u32(P_MPS, limit), p_u16(P_TAM, tam)] } else { vec![] } };
        if as_client {
            d.send(connect);
            d.feed(&rc::encode(&connack, idw), &[]);
        } else {
            d.feed(&rc::encode(&connect, idw), &[]);
            d.send(connack);
        }
        d
    };
    let mut judge = |d: Driver, what: &str, rep: &mut Report| {
        let out = d.finish();
        rep.evaluations += 1;
        rep.api_calls += out.api_calls;
        for (k, v) in out.hits.iter() {
            if (prop == "C14" && k.starts_with('Z')) || (prop == "C13" && k.starts_with("AL")) {
                rep.hit_n(k, *v);
            }
        }
        rep.distinct_case(format!("{} {:?} {} {}", what, role, idw, as_client).as_bytes());
        for f in out.found.iter().filter(|f| f.property == prop) {
            rep.violate(Violation { property: prop.into(), rule: f.rule.to_string(), signature: f.signature(), what: format!("[{}] {}", what, f.what), witness: json!({"history": trace_json(&out.trace)}), case: (2, i) });
        }
    };
    // (1) direct sends of every kind this path may send while connected
    let kinds: Vec<Pkt> = {
        let mut v = vec![
            Pkt::Publish { ver, dup: false, qos: 0, retain: false, topic: b"a".to_vec(), id: None, props: vec![], payload: b"xyz".to_vec() },
            Pkt::Publish { ver, dup: false, qos: 1, retain: false, topic: b"ab".to_vec(), id: Some(0), props: vec![], payload: b"x".to_vec() },
            Pkt::Publish { ver, dup: false, qos: 2, retain: false, topic: b"c/d".to_vec(), id: Some(0), props: vec![p_u16(P_TA, 1)], payload: vec![] },
            Pkt::Ack { ver, kind: AckKind::Puback, id: 3, code: None, props: None },
            Pkt::Ack { ver, kind: AckKind::Pubrec, id: 3, code: Some(0x80), props: Some(vec![]) },
            Pkt::Ack { ver, kind: AckKind::Pubcomp, id: 3, code: Some(0), props: None },
            Pkt::Disconnect { ver, code: Some(0), props: None },
            Pkt::Auth { code: Some(0x19), props: Some(vec![p_str(21, "m")]) },
        ];
        if as_client {
            v.push(Pkt::Subscribe { ver, id: 0, props: vec![], entries: vec![(b"a".to_vec(), 1)] });
            v.push(Pkt::Unsubscribe { ver, id: 0, props: vec![], entries: vec![b"a".to_vec()] });
            v.push(Pkt::Pingreq { ver });
        } else {
            v.push(Pkt::Suback { ver, id: 3, props: vec![], codes: vec![0] });
            v.push(Pkt::Unsuback { ver, id: 3, props: vec![], codes: vec![0] });
            v.push(Pkt::Pingresp { ver });
        }
        v
    };
    for p in kinds.iter() {
        let base = rc::encode(p, idw).len() as i64;
        for delta in [-1i64, 0, 1] {
            for auto_map in [false, true] {
                let limit = (base + delta).max(1) as u32;
                let mut d = mk(limit, 2, auto_map, false);
                let mut q = p.clone();
                // our own ids come from acquire
                let needs = matches!(&q, Pkt::Publish { id: Some(_), .. } | Pkt::Subscribe { .. } | Pkt::Unsubscribe { .. });
                if needs {
                    if let Some(id) = d.acquire() {
                        match &mut q {
                            Pkt::Publish { id: i2, .. } => *i2 = Some(id),
                            Pkt::Subscribe { id: i2, .. } | Pkt::Unsubscribe { id: i2, .. } => *i2 = id,
                            _ => {}
                        }
                    }
                }
                d.send(q.clone());
                // a second publish on the same topic: the automatic mapping may now swap the topic for the alias
                if let Pkt::Publish { topic, qos, .. } = &q {
                    let id2 = if *qos > 0 { d.acquire() } else { None };
                    if *qos == 0 || id2.is_some() {
                        d.send(Pkt::Publish { ver, dup: false, qos: *qos, retain: false, topic: topic.clone(), id: id2, props: vec![], payload: b"x".to_vec() });
                    }
                }
                judge(d, &format!("direct {:?} limit=size{:+} auto_map={}", p.kind(), delta, auto_map), rep);
            }
        }
    }
    // (2) automatic responses against tiny limits
    for limit in 1u32..=9 {
        let mut d = mk(limit, 0, false, true);
        d.feed(&rc::encode(&Pkt::Publish { ver, dup: false, qos: 1, retain: false, topic: b"a".to_vec(), id: Some(1), props: vec![], payload: vec![] }, idw), &[]);
        d.feed(&rc::encode(&Pkt::Publish { ver, dup: false, qos: 2, retain: false, topic: b"a".to_vec(), id: Some(2), props: vec![], payload: vec![] }, idw), &[]);
        d.feed(&rc::encode(&Pkt::Ack { ver, kind: AckKind::Pubrel, id: 2, code: None, props: None }, idw), &[]);
        d.feed(&rc::encode(&Pkt::Ack { ver, kind: AckKind::Pubrel, id: 9, code: None, props: None }, idw), &[]);
        if !as_client {
            d.feed(&rc::encode(&Pkt::Pingreq { ver }, idw), &[]);
        }
        // a protocol error makes the library send its own DISCONNECT
        d.feed(&rc::encode(&Pkt::Ack { ver, kind: AckKind::Puback, id: 77, code: None, props: None }, idw), &[]);
        judge(d, &format!("automatic responses limit={}", limit), rep);
    }
    // (3) stored packets resent under a limit around their sizes
    for limit in [8u32, 10, 11, 12, 13, 14, 15, 16, 17, 18, 20, 40] {
        let mut d = mk(268_435_455, 2, false, true);
        for (k, pl) in [0usize, 2, 4, 6].iter().enumerate() {
            if let Some(id) = d.acquire() {
                d.send(Pkt::Publish { ver, dup: false, qos: 1 + (k as u8 % 2), retain: false, topic: b"a".to_vec(), id: Some(id), props: vec![], payload: vec![b'p'; *pl] });
            }
        }
        d.closed();
        let connect = Pkt::Connect { ver, clean: false, keep_alive: 0, client_id: b"c".to_vec(), will: None, user: None, pass: None, props: if as_client { vec![p_u32(P_SEI, 50)] } else { vec![p_u32(P_SEI, 50), p_u32(P_MPS, limit)] } };
        let connack = Pkt::Connack { ver, sp: true, code: 0, props: if as_client { vec![p_u32(P_MPS, limit)] } else { vec![] } };
        if as_client {
            d.send(connect);
            d.feed(&rc::encode(&connack, idw), &[]);
        } else {
            d.feed(&rc::encode(&connect, idw), &[]);
            d.send(connack);
        }
        judge(d, &format!("stored resend limit={}", limit), rep);
    }
    // (5) the automatic alias machinery around the encoding boundaries: a PUBLISH whose plain size is just below the
    // point where Remaining Length (127/128, 16383/16384) or Property Length needs one more byte grows by more than the
    // three bytes of the Topic Alias property when the library adds one
    for base in [118usize, 16374] {
        for extra in 0..=16usize {
            for delta in 0..=6u32 {
                for (qos, props_pad) in [(0u8, 0usize), (1, 0), (0, 118), (1, 118)] {
                    if base > 1000 && props_pad > 0 {
                        continue;
                    }
                    // automatic mapping (the library chooses the alias) / automatic replacement (the application registered it),
                    // topics of 1..3 bytes (the swap topic -> 3-byte alias property then grows, keeps or shrinks the packet)
                    for (replace, topic) in [(false, &b"t/u"[..]), (true, &b"t"[..]), (true, &b"tu"[..]), (true, &b"t/u"[..])] {
                        if base > 1000 && topic.len() != 3 {
                            continue;
                        }
                        let mut props = Vec::new();
                        if props_pad > 0 {
                            // property section at props_pad + extra/2 bytes: around its own 127/128 boundary
                            props.push(Prop { id: 38, val: PVal::Pair(b"k".to_vec(), vec![b'v'; props_pad + extra / 2 - 6]) });
                        }
                        let payload_len = if props_pad > 0 { 1 } else { base + extra - 8 };
                        let p0 = Pkt::Publish { ver, dup: false, qos, retain: false, topic: topic.to_vec(), id: if qos > 0 { Some(1) } else { None }, props: props.clone(), payload: vec![b'z'; payload_len] };
                        let plain = rc::encode(&p0, idw).len() as u32;
                        let mut d = mk(plain + delta, 2, !replace, false);
                        if replace {
                            d.set_opt(Opt::AutoReplaceTopicAlias, true);
                            // the application binds alias 1 to the topic with a small packet
                            d.send(Pkt::Publish { ver, dup: false, qos: 0, retain: false, topic: topic.to_vec(), id: None, props: vec![p_u16(P_TA, 1)], payload: vec![] });
                        } else {
                            // fill the table of 2 so that the next new topic evicts
                            d.send(Pkt::Publish { ver, dup: false, qos: 0, retain: false, topic: b"o/1".to_vec(), id: None, props: vec![], payload: vec![] });
                            d.send(Pkt::Publish { ver, dup: false, qos: 0, retain: false, topic: b"o/2".to_vec(), id: None, props: vec![], payload: vec![] });
                        }
                        for _ in 0..2 {
                            let id = if qos > 0 { d.acquire() } else { None };
                            if qos > 0 && id.is_none() {
                                break;
                            }
                            d.send(Pkt::Publish { ver, dup: false, qos, retain: false, topic: topic.to_vec(), id, props: props.clone(), payload: vec![b'z'; payload_len] });
                        }
                        // small follow-ups: whatever the library recorded about the big ones now shows on the wire
                        d.send(Pkt::Publish { ver, dup: false, qos: 0, retain: false, topic: topic.to_vec(), id: None, props: vec![], payload: vec![b's'] });
                        d.send(Pkt::Publish { ver, dup: false, qos: 0, retain: false, topic: b"o/1".to_vec(), id: None, props: vec![], payload: vec![b's'] });
                        d.send(Pkt::Publish { ver, dup: false, qos: 0, retain: false, topic: b"o/2".to_vec(), id: None, props: vec![], payload: vec![b's'] });
                        judge(d, &format!("{} at encoding boundary topic_len={} plain={} limit=plain+{} qos={} props_pad={}", if replace { "auto-replace" } else { "auto-map" }, topic.len(), plain, delta, qos, props_pad), rep);
                    }
                }
            }
        }
    }
    // (4) inbound: frames of size limit-1 / limit / limit+1 against the locally announced maximum
    for delta in [-1i64, 0, 1] {
        let p = Pkt::Publish { ver, dup: false, qos: 0, retain: false, topic: b"a".to_vec(), id: None, props: vec![], payload: vec![b'q'; 20] };
        let size = rc::encode(&p, idw).len() as i64;
        let local = (size + delta) as u32;
        let sc = Scenario { role, idw, ver: LVer::V5, focus: Focus::Size, max_ops: 0, hostile_pct: 0, as_client, speak: Ver::V5, connect_first: false };
        let mut d = Driver::new(sc, 9);
        d.known = known.clone();
        let connect = Pkt::Connect { ver, clean: true, keep_alive: 0, client_id: b"c".to_vec(), will: None, user: None, pass: None, props: if as_client { vec![p_u32(P_MPS, local)] } else { vec![] } };
        let connack = Pkt::Connack { ver, sp: false, code: 0, props: if as_client { vec![] } else { vec![p_u32(P_MPS, local)] } };
        if as_client {
            d.send(connect);
            d.feed(&rc::encode(&connack, idw), &[]);
        } else {
            d.feed(&rc::encode(&connect, idw), &[]);
            d.send(connack);
        }
        d.feed(&rc::encode(&p, idw), &[]);
        judge(d, &format!("inbound frame size=limit{:+}", -delta), rep);
    }
}
