//! Connection-level properties decided by the generic driver + the shared reference model:
//! C05 C06 C07 C08 C12 C13 C14 C15 C19. Each check runs the driver with its own focus and reports
//! only the rules of its own property.

use crate::driver::*;
use crate::report::{run_cases, Ctx, Report, Violation};
use crate::rng::Rng;
use serde_json::json;

/// signatures of the `known` entries of known_findings.json
pub fn known_signatures() -> std::sync::Arc<std::collections::HashSet<String>> {
    let root = std::env::var("VERIF_ROOT").unwrap_or_else(|_| "/verif".to_string());
    let fs = crate::findings::load(&format!("{}/known_findings.json", root));
    std::sync::Arc::new(fs.into_iter().filter(|f| f.status == "known").map(|f| f.signature).collect())
}

pub struct Spec {
    pub prop: &'static str,
    pub focus: &'static [Focus],
    pub hostile_pct: u64,
    pub quick: u64,
    pub thorough: u64,
    pub floors: &'static [(&'static str, u64)],
    pub rule_text: &'static str,
}

pub fn run_spec(ctx: &Ctx, sp: &Spec) -> Report {
    let n = ctx.budget(sp.quick, sp.thorough);
    let known = known_signatures();
    let mut total = run_cases(ctx, 1, n, sp.rule_text, |i, seed, rep| {
        let mut r = Rng::new(seed ^ 0xA11CE);
        let focus = sp.focus[(i as usize) % sp.focus.len()];
        let sc = random_scenario(&mut r, focus, sp.hostile_pct);
        let scj = scenario_json(&sc);
        let mut d = Driver::new(sc, seed);
        d.known = known.clone();
        let out = d.run();
        rep.evaluations += 1;
        rep.api_calls += out.api_calls;
        for (k, v) in out.hits.iter() {
            rep.hit_n(k, *v);
        }
        for (k, v) in out.counters.iter() {
            rep.count_n(k, *v);
        }
        rep.count_n("connections", out.connections as u64);
        rep.count_n("frames_fed", out.frames);
        rep.count(&format!("max_inflight={}", out.max_inflight.min(6)));
        rep.count(&format!("connections_per_history={}", out.connections.min(6)));
        if out.nontrivial {
            rep.distinct_hash(out.shape);
        }
        if i % 997 == 3 {
            rep.sample(json!({"scenario": scj, "history": trace_json(&out.trace)}), 4);
        }
        for f in out.found.iter().chain(out.known_seen.iter()) {
            if f.property == sp.prop || std::env::var("VERIF_ALLPROPS").is_ok() {
                rep.violate(Violation {
                    property: f.property.to_string(),
                    rule: f.rule.to_string(),
                    signature: f.signature(),
                    what: f.what.clone(),
                    witness: json!({"scenario": scj, "history": trace_json(&out.trace), "model_state_at_failure": out.model_state}),
                    case: (1, i),
                });
            } else {
                rep.count(&format!("history_ended_by_other_property_rule[{}]", f.signature()));
            }
        }
    });
    total.assumptions.push("application contract (DESIGN §3.3): ids used in sends come from acquire/register and are not reused while an exchange owns them; timers are fired only when armed; notify_closed follows a close request or models a transport loss and always precedes the next CONNECT; manual responses answer ids the peer used".into());
    total.assumptions.push("the reference model (DESIGN Appendix F) is the specification; it is updated only from calls, returned events and public probes".into());
    total.extra.insert("histories_nontrivial".into(), json!(total.distinct.len()));
    if ctx.replay.is_none() {
        total.require_hits(sp.floors);
    }
    total
}

const RULE: &str = "seeded random histories (10-60 operations) of contract-respecting local calls interleaved with peer traffic (matching/mismatching acknowledgements, publishes with small id/topic/alias alphabets, hostile frames) over roles Client/Server/Any x v3.1.1/v5.0/undetermined x u16/u32 ids x option flags x negotiated limits; every call record is fed to the reference model; distinct = distinct histories by hash of (call kind, event kind) sequence among those that reached an established connection with at least one exchange in flight";

pub fn spec_for(prop: &str) -> Option<Spec> {
    Some(match prop {
        "C05" => Spec { prop: "C05", focus: &[Focus::Hostile, Focus::General, Focus::Size, Focus::Flow], hostile_pct: 30, quick: 700_000, thorough: 25_000_000, floors: &[("X3-frame-delivered-answered-or-reported", 10_000)], rule_text: RULE },
        "C06" => Spec { prop: "C06", focus: &[Focus::Store, Focus::General], hostile_pct: 4, quick: 500_000, thorough: 20_000_000, floors: &[("S1-accepted-publish-sent-or-stored", 5_000), ("S3-store-changes-only-for-a-cause", 100_000), ("S4-resend-store-in-order-after-connack", 1_000), ("S6-only-matching-ack-is-accepted", 2_000)], rule_text: RULE },
        "C07" => Spec { prop: "C07", focus: &[Focus::Qos2In], hostile_pct: 4, quick: 500_000, thorough: 20_000_000, floors: &[("Q1-qos2-notified-at-most-once-per-exchange", 5_000), ("Q2-handled-set-equals-model", 100_000), ("Q4-duplicate-answered-with-pubrec", 500)], rule_text: RULE },
        "C08" => Spec { prop: "C08", focus: &[Focus::Ids, Focus::Store], hostile_pct: 4, quick: 500_000, thorough: 20_000_000, floors: &[("P1-acquire-returns-free-id", 10_000), ("P3-release-announced-only-for-in-use-id", 5_000), ("P4-in-use-set-equals-model", 100_000), ("P5b-refused-send-releases-id", 1_000), ("P5c-close-releases-inflight-ids", 5_000)], rule_text: RULE },
        "C12" => Spec { prop: "C12", focus: &[Focus::Flow], hostile_pct: 3, quick: 500_000, thorough: 20_000_000, floors: &[("F1-vacancy-equals-max-minus-outstanding", 50_000), ("F2-accept-iff-below-receive-maximum", 5_000), ("F3-inbound-excess-not-delivered", 1_000)], rule_text: RULE },
        "C13" => Spec { prop: "C13", focus: &[Focus::Alias], hostile_pct: 3, quick: 500_000, thorough: 20_000_000, floors: &[("AL1-empty-topic-resolvable-at-receiver", 1_000), ("AL2-alias-within-peer-maximum", 2_000), ("AL5-inbound-alias-resolves-to-bound-topic", 300)], rule_text: RULE },
        "C14" => Spec { prop: "C14", focus: &[Focus::Size, Focus::Size, Focus::Store, Focus::Hostile], hostile_pct: 6, quick: 500_000, thorough: 20_000_000, floors: &[("Z1-sent-size-within-peer-maximum", 20_000)], rule_text: RULE },
        "C15" => Spec { prop: "C15", focus: &[Focus::Timers, Focus::General], hostile_pct: 4, quick: 500_000, thorough: 20_000_000, floors: &[("T1-cancel-only-armed", 5_000), ("T2-no-timer-armed-after-close-or-disconnect", 10_000), ("T4-client-rearms-pingreq-after-send", 5_000), ("T5-server-rearms-receive-timer", 5_000), ("T7-expiry-has-specified-effect", 500)], rule_text: RULE },
        "C19" => Spec { prop: "C19", focus: &[Focus::Hostile, Focus::Timers, Focus::General, Focus::Store, Focus::Qos2In], hostile_pct: 20, quick: 600_000, thorough: 20_000_000, floors: &[("K1-close-after-last-send", 10_000), ("K2-closing-packet-accompanied-by-close", 5_000), ("K3-timeout-results-in-close", 200)], rule_text: RULE },
        _ => return None,
    })
}

pub fn run(ctx: &Ctx) -> Option<Report> {
    spec_for(&ctx.prop).map(|sp| run_spec(ctx, &sp))
}
