//! C04 - decoder totality; accepted input is self-consistent and satisfies the builders' rules.
//!
//! Every parse runs under catch_unwind in the assertions/overflow-checks build. For every accepted
//! packet q: consumed <= input, size()==len(serialise(q)), parse(serialise(q))==q, every &str valid
//! UTF-8, and the *rebuild oracle*: the values read from q through the public accessors, fed to the
//! public builder of the same kind, must be accepted (R1); a rebuilt packet that serialises
//! differently is only counted (R2, noncanonical_accepted).

use crate::apkt::*;
use crate::bridge::{self, BuildErr, Pid};
use crate::gen::{self, GenCfg};
use crate::guard;
use crate::libcodec::*;
use crate::refcodec::{self as rc, Mark};
use crate::report::{run_cases, Ctx, Report, Tier, Violation};
use crate::rng::Rng;
use mqtt_protocol_core::mqtt::common::Cursor;
use mqtt_protocol_core::mqtt::connection::{PacketBuildResult, PacketBuilder};
use mqtt_protocol_core::mqtt::packet::{
    DecodeResult, MqttBinary, MqttString, Properties, PropertiesParse, PropertiesSize,
    Property, SubEntry, VariableByteInteger,
};
use serde_json::json;

fn hex(b: &[u8]) -> String {
    let mut s = String::new();
    for (i, x) in b.iter().enumerate() {
        if i >= 80 {
            s.push_str(&format!("..(+{})", b.len() - i));
            break;
        }
        s.push_str(&format!("{:02x}", x));
    }
    s
}

fn strings_of(p: &Pkt) -> Vec<&Vec<u8>> {
    let mut v: Vec<&Vec<u8>> = Vec::new();
    fn props<'a>(ps: &'a [Prop], v: &mut Vec<&'a Vec<u8>>) {
        for p in ps {
            match &p.val {
                PVal::Str(s) => v.push(s),
                PVal::Pair(k, x) => {
                    v.push(k);
                    v.push(x);
                }
                _ => {}
            }
        }
    }
    match p {
        Pkt::Connect { client_id, will, user, props: ps, .. } => {
            v.push(client_id);
            if let Some(w) = will {
                v.push(&w.topic);
                props(&w.props, &mut v);
            }
            if let Some(u) = user {
                v.push(u);
            }
            props(ps, &mut v);
        }
        Pkt::Publish { topic, props: ps, .. } => {
            v.push(topic);
            props(ps, &mut v);
        }
        Pkt::Subscribe { entries, props: ps, .. } => {
            for (t, _) in entries {
                v.push(t);
            }
            props(ps, &mut v);
        }
        Pkt::Unsubscribe { entries, props: ps, .. } => {
            for t in entries {
                v.push(t);
            }
            props(ps, &mut v);
        }
        other => {
            if let Some(ps) = other.props() {
                props(ps, &mut v);
            }
        }
    }
    v
}

/// why the builders might legitimately refuse what a parser accepted: classes used in signatures
fn reject_class(qa: &Pkt) -> &'static str {
    match qa {
        Pkt::Publish { topic, props, .. } => {
            if topic.iter().any(|b| *b == b'#' || *b == b'+') {
                "publish-topic-has-wildcard"
            } else if topic.is_empty() && !props.iter().any(|p| p.id == P_TA) {
                "publish-topic-empty-without-alias"
            } else {
                "publish-other"
            }
        }
        Pkt::Subscribe { entries, .. } => {
            if entries.is_empty() {
                "subscribe-no-entries"
            } else if entries.iter().any(|(t, _)| t.starts_with(b"$share/")) {
                "subscribe-share-name"
            } else {
                "subscribe-other"
            }
        }
        Pkt::Unsubscribe { entries, .. } => {
            if entries.is_empty() {
                "unsubscribe-no-entries"
            } else {
                "unsubscribe-other"
            }
        }
        Pkt::Connect { user, pass, .. } => {
            if user.is_none() && pass.is_some() {
                "connect-password-without-user-name"
            } else {
                "connect-other"
            }
        }
        Pkt::Auth { .. } => "auth",
        Pkt::Suback { codes, .. } | Pkt::Unsuback { codes, .. } if codes.is_empty() => "ack-no-codes",
        _ => "other",
    }
}

fn viol(rule: &str, first: u8, ver: Ver, extra: &str, what: String, body: &[u8], idw: usize, origin: &str, case: (u64, u64)) -> Violation {
    let kind = Kind::from_nibble(first >> 4).map(|k| format!("{:?}", k)).unwrap_or("type0".into());
    Violation {
        property: "C04".into(),
        rule: rule.into(),
        signature: format!("C04.{}@kind={};ver={:?}{}", rule, kind, ver, extra),
        what: format!("{} {:?} parser, first byte {:#04x}, id width {}, body {} ({} bytes, {}): {}", kind, ver, first, idw, hex(body), body.len(), origin, what),
        witness: json!({"first_byte": first, "version": format!("{:?}", ver), "id_width": idw, "body_hex": hex(body), "origin": origin, "detail": what}),
        case,
    }
}

/// Parse `body` with the library parser of (first byte, version) and judge the outcome.
/// Returns true if accepted.
pub fn judge<P: Pid>(first: u8, body: &[u8], ver: Ver, origin: &str, rep: &mut Report, case: (u64, u64)) -> bool {
    rep.api_calls += 1;
    let idw = P::WIDTH;
    let r = guard::call(|| lib_parse_body::<P>(first, body, ver));
    rep.hit("D1-no-panic");
    let (q, consumed) = match r {
        Err(pn) => {
            rep.violate(viol("D1-no-panic", first, ver, &format!(";msg={}", pn.class()), format!("parser panicked: {} at {}", pn.message, pn.location), body, idw, origin, case));
            return false;
        }
        Ok(Err(ParseErr::UnknownType(_))) => return false,
        Ok(Err(_)) => {
            rep.count("rejected");
            return false;
        }
        Ok(Ok(x)) => x,
    };
    rep.count("accepted");
    rep.hit("D2-consumed-within-input");
    if consumed > body.len() {
        rep.violate(viol("D2-consumed-within-input", first, ver, "", format!("parser reports {} bytes consumed of {}", consumed, body.len()), body, idw, origin, case));
        return true;
    }
    // self-consistency
    let ser = guard::call(|| (lib_bytes(&q), lib_size(&q)));
    let (bytes, size) = match ser {
        Ok(x) => x,
        Err(pn) => {
            rep.violate(viol("D1-no-panic", first, ver, ";where=serialise", format!("serialising the accepted packet panicked: {}", pn.message), body, idw, origin, case));
            return true;
        }
    };
    rep.hit("D3-size-equals-serialisation");
    if size != bytes.len() {
        rep.violate(viol("D3-size-equals-serialisation", first, ver, "", format!("accepted packet reports size()={} but serialises to {} bytes ({})", size, bytes.len(), hex(&bytes)), body, idw, origin, case));
        return true;
    }
    rep.hit("D4-reparse-yields-equal-packet");
    match guard::call(|| lib_parse_frame::<P>(&bytes, ver)) {
        Err(pn) => {
            rep.violate(viol("D1-no-panic", first, ver, ";where=reparse", format!("re-parsing the serialisation panicked: {}", pn.message), body, idw, origin, case));
            return true;
        }
        Ok(Err(e)) => {
            rep.violate(viol("D4-reparse-yields-equal-packet", first, ver, ";how=rejected", format!("the serialisation {} of the accepted packet is rejected: {:?}", hex(&bytes), e), body, idw, origin, case));
            return true;
        }
        Ok(Ok((q2, n2, bl2))) => {
            if q2 != q || n2 != bl2 {
                rep.violate(viol("D4-reparse-yields-equal-packet", first, ver, ";how=different", format!("re-parsing the serialisation {} yields a different packet (consumed {} of {})", hex(&bytes), n2, bl2), body, idw, origin, case));
                return true;
            }
        }
    }
    // accessors + UTF-8
    let qa = match guard::call(|| bridge::from_lib(&q)) {
        Ok(x) => x,
        Err(pn) => {
            rep.violate(viol("D1-no-panic", first, ver, ";where=accessors", format!("an accessor panicked: {}", pn.message), body, idw, origin, case));
            return true;
        }
    };
    rep.hit("D5-strings-valid-utf8");
    for s in strings_of(&qa) {
        if std::str::from_utf8(s).is_err() {
            rep.violate(viol("D5-strings-valid-utf8", first, ver, "", format!("an accessor returned a &str with invalid UTF-8: {}", hex(s)), body, idw, origin, case));
            return true;
        }
    }
    // rebuild oracle
    rep.hit("D6-builders-accept-accepted-values");
    match guard::call(|| bridge::to_lib::<P>(&qa)) {
        Err(pn) => {
            rep.violate(viol("D1-no-panic", first, ver, ";where=rebuild", format!("builder panicked on values read from the accepted packet: {}", pn.message), body, idw, origin, case));
        }
        Ok(Err(BuildErr::Lib(e))) => {
            rep.violate(viol(
                "D6-builders-accept-accepted-values",
                first,
                ver,
                &format!(";class={};err={}", reject_class(&qa), e),
                format!("parser accepts, but the builder of the same kind rejects the values read back ({}) with {}", qa.short(), e),
                body,
                idw,
                origin,
                case,
            ));
        }
        Ok(Err(BuildErr::Inexpressible(e))) => {
            rep.violate(viol("D6-builders-accept-accepted-values", first, ver, &format!(";inexpressible={}", e), format!("accepted packet holds a value no public constructor can express: {} ({})", e, qa.short()), body, idw, origin, case));
        }
        Ok(Ok(p2)) => {
            if p2 != q || lib_bytes(&p2) != bytes {
                rep.count("noncanonical_accepted(R2,not judged)");
            }
        }
    }
    true
}

// ------------------------------------------------------------------------------------------------
// mutation engine

fn put_vbi_nonminimal(v: u32, extra: usize) -> Vec<u8> {
    // canonical bytes, then continuation bits + zero bytes appended
    let mut b = Vec::new();
    rc::vbi_encode(v, &mut b);
    for _ in 0..extra {
        let l = b.len();
        b[l - 1] |= 0x80;
        b.push(0x00);
    }
    b
}

/// apply one structured mutation to `body` guided by the marks; returns a description
fn mutate(r: &mut Rng, body: &mut Vec<u8>, first: &mut u8, marks: &[Mark]) -> &'static str {
    let choice = r.below(100);
    if body.is_empty() {
        body.push(r.byte());
        return "insert-into-empty";
    }
    if choice < 45 && !marks.is_empty() {
        match *r.pick(marks) {
            Mark::Len16(off) if off + 2 <= body.len() => {
                let cur = ((body[off] as u16) << 8) | body[off + 1] as u16;
                let nv = match r.below(6) {
                    0 => cur.wrapping_add(1),
                    1 => cur.wrapping_sub(1),
                    2 => 0,
                    3 => 0xFFFF,
                    4 => cur.wrapping_add(256),
                    _ => (body.len() - off) as u16,
                };
                body[off] = (nv >> 8) as u8;
                body[off + 1] = nv as u8;
                "len16-edit"
            }
            Mark::Vbi(off, n) if off + n <= body.len() => {
                let (val, _) = rc::vbi_decode(&body[off..]).unwrap_or((0, n));
                let repl: Vec<u8> = match r.below(7) {
                    0 => put_vbi_nonminimal(val, 1),
                    1 => put_vbi_nonminimal(val, 2),
                    2 => {
                        let mut b = Vec::new();
                        rc::vbi_encode(val.wrapping_add(1).min(rc::VBI_MAX), &mut b);
                        b
                    }
                    3 => {
                        let mut b = Vec::new();
                        rc::vbi_encode(val.saturating_sub(1), &mut b);
                        b
                    }
                    4 => vec![0x80, 0x80, 0x80, 0x80, 0x01],
                    5 => vec![0xFF, 0xFF, 0xFF, 0x7F],
                    _ => put_vbi_nonminimal(val, 3),
                };
                body.splice(off..off + n, repl);
                "vbi-edit"
            }
            Mark::Id(off) => {
                let w = if off + 4 <= body.len() && r.bool() { 4 } else { 2 };
                for i in 0..w {
                    if off + i < body.len() {
                        body[off + i] = 0;
                    }
                }
                "id-zero"
            }
            Mark::Byte(off) if off < body.len() => {
                body[off] = match r.below(6) {
                    0 => 0x00,
                    1 => 0xFF,
                    2 => body[off].wrapping_add(1),
                    3 => body[off] ^ (1 << r.below(8)),
                    4 => 0x03,
                    _ => r.byte(),
                };
                "byte-edit"
            }
            Mark::PropSpan(a, b) if b <= body.len() && a < b => match r.below(3) {
                0 => {
                    let dup = body[a..b].to_vec();
                    body.splice(b..b, dup);
                    "property-duplicated(length not fixed)"
                }
                1 => {
                    body.drain(a..b);
                    "property-removed(length not fixed)"
                }
                _ => {
                    body[a] = *r.pick(&[0u8, 4, 5, 10, 12, 16, 20, 27, 29, 30, 32, 43, 0xFF, 1, 17, 33, 35, 38]);
                    "property-id-replaced"
                }
            },
            _ => {
                let o = r.usize(body.len());
                body[o] ^= 1 << r.below(8);
                "bit-flip"
            }
        }
    } else if choice < 60 {
        let o = r.usize(body.len());
        body[o] ^= 1 << r.below(8);
        "bit-flip"
    } else if choice < 75 {
        let o = r.usize(body.len() + 1);
        body.truncate(o);
        "truncate"
    } else if choice < 85 {
        let o = r.usize(body.len() + 1);
        body.insert(o, *r.pick(&[0x00u8, 0x7F, 0x80, 0xFF]));
        "insert"
    } else if choice < 93 {
        let o = r.usize(body.len());
        body[o] = *r.pick(&[0x00u8, 0x7F, 0x80, 0xFF, 0x01, 0xC0, 0xED, 0xF4]);
        "overwrite"
    } else if choice < 97 {
        // flags nibble (QoS 3, reserved bits)
        *first = (*first & 0xF0) | (r.below(16) as u8);
        "flags-nibble"
    } else {
        let o = r.usize(body.len());
        let e = (o + 1 + r.usize(8)).min(body.len());
        body.drain(o..e);
        "delete-range"
    }
}

/// invalid UTF-8 injected into a string field (surrogates, overlong, truncated sequences)
fn poison_string(r: &mut Rng, body: &mut Vec<u8>, marks: &[Mark]) -> bool {
    let lens: Vec<usize> = marks.iter().filter_map(|m| if let Mark::Len16(o) = m { Some(*o) } else { None }).collect();
    if lens.is_empty() {
        return false;
    }
    let off = *r.pick(&lens);
    if off + 2 > body.len() {
        return false;
    }
    let l = ((body[off] as usize) << 8) | body[off + 1] as usize;
    if l == 0 || off + 2 + l > body.len() {
        return false;
    }
    let bad: &[&[u8]] = &[&[0xC0, 0x80], &[0xED, 0xA0, 0x80], &[0xF4, 0x90, 0x80, 0x80], &[0xE2, 0x82], &[0xFF], &[0x80], &[0xF8, 0x88, 0x80, 0x80, 0x80]];
    let b = *r.pick(bad);
    let n = b.len().min(l);
    let at = off + 2 + r.usize(l - n + 1);
    body[at..at + n].copy_from_slice(&b[..n]);
    true
}

fn mutation_case<P: Pid>(seed: u64, rep: &mut Report, case: (u64, u64), kinds: &[(Kind, Ver)]) {
    let mut r = Rng::new(seed);
    let (k, v) = *r.pick(kinds);
    let cfg = GenCfg { big_pm: 3, huge_pm: 0, idw: P::WIDTH };
    let a = gen::gen_packet(&mut r, &cfg, k, v);
    let frame = rc::encode(&a, P::WIDTH);
    let Ok((_, marks)) = rc::decode_marks(&frame, v, P::WIDTH) else {
        rep.count("harness:reference decoder could not walk its own encoding");
        return;
    };
    let rc::Framed::Frame { first, body_off, .. } = rc::frame_at(&frame) else { return };
    let body0 = frame[body_off..].to_vec();
    // the unmutated encoding must be accepted (keeps the corpus honest); known C03 finding aside
    let n_mut = 1 + r.usize(3);
    let mut body = body0.clone();
    let mut f = first;
    let mut names: Vec<&'static str> = Vec::new();
    if r.chance(1, 12) && poison_string(&mut r, &mut body, &marks) {
        names.push("invalid-utf8-in-string");
    } else {
        for _ in 0..n_mut {
            names.push(mutate(&mut r, &mut body, &mut f, &marks));
        }
    }
    // version confusion: sometimes parse with the other version's parser
    let ver = if r.chance(1, 20) { if v == Ver::V5 { Ver::V311 } else { Ver::V5 } } else { v };
    let origin = format!("mutation {:?} of a valid {:?} {:?}", names, k, v);
    rep.evaluations += 1;
    for n in &names {
        rep.count(&format!("mutation[{}]", n));
    }
    let acc = judge::<P>(f, &body, ver, &origin, rep, case);
    rep.distinct_case(&[&[k.nibble(), v as u8, ver as u8, acc as u8, P::WIDTH as u8][..], names.join(",").as_bytes()].concat());
    if rep.samples.len() < 3 && r.chance(1, 2000) {
        rep.sample(json!({"origin": origin, "first_byte": f, "body_hex": hex(&body), "accepted": acc}), 3);
    }
}

// ------------------------------------------------------------------------------------------------
// exhaustive short inputs

fn exhaustive_short<P: Pid>(ty: u8, ver: Ver, maxlen: usize, rep: &mut Report, case: (u64, u64)) {
    let flag_set: Vec<u8> = if ty == 3 { (0..16).collect() } else { vec![match ty { 6 | 8 | 10 => 2, _ => 0 }] };
    for fl in flag_set {
        let first = (ty << 4) | fl;
        let origin = format!("exhaustive bodies <= {} bytes", maxlen);
        judge::<P>(first, &[], ver, &origin, rep, case);
        rep.evaluations += 1;
        if maxlen >= 1 {
            for a in 0..=255u8 {
                judge::<P>(first, &[a], ver, &origin, rep, case);
                rep.evaluations += 1;
            }
        }
        if maxlen >= 2 {
            for a in 0..=255u8 {
                for b in 0..=255u8 {
                    judge::<P>(first, &[a, b], ver, &origin, rep, case);
                }
            }
            rep.evaluations += 65536;
        }
        if maxlen >= 3 {
            for a in 0..=255u8 {
                for b in 0..=255u8 {
                    for c in 0..=255u8 {
                        judge::<P>(first, &[a, b, c], ver, &origin, rep, case);
                    }
                }
            }
            rep.evaluations += 1 << 24;
        }
    }
}

// ------------------------------------------------------------------------------------------------
// standalone decoders

fn standalone(seed: u64, rep: &mut Report, case: (u64, u64)) {
    let mut r = Rng::new(seed);
    let n = *r.pick(&[0usize, 1, 2, 3, 4, 5, 6, 8, 12, 20, 40]);
    let mut data = r.bytes(n);
    // bias: plausible length prefixes
    if n >= 2 && r.bool() {
        data[0] = 0;
        data[1] = r.below((n as u64) + 2) as u8;
    }
    rep.evaluations += 1;
    rep.api_calls += 6;
    let fail = |rule: &str, which: &str, what: String| Violation {
        property: "C04".into(),
        rule: rule.into(),
        signature: format!("C04.{}@decoder={}", rule, which),
        what: format!("{} on {}: {}", which, hex(&data), what),
        witness: json!({"decoder": which, "input_hex": hex(&data)}),
        case,
    };
    // MqttString
    match guard::call(|| MqttString::decode(&data)) {
        Err(p) => rep.violate(fail("D1-no-panic", "MqttString::decode", p.message)),
        Ok(Ok((s, c))) => {
            rep.hit("D7-standalone-decoders");
            if c > data.len() || std::str::from_utf8(s.as_str().as_bytes()).is_err() || s.size() != c || s.to_continuous_buffer() != data[..c] {
                rep.violate(fail("D7-standalone-decoders", "MqttString::decode", format!("accepted: consumed {}, size {}, bytes {}", c, s.size(), hex(&s.to_continuous_buffer()))));
            }
        }
        Ok(Err(_)) => {}
    }
    match guard::call(|| MqttBinary::decode(&data)) {
        Err(p) => rep.violate(fail("D1-no-panic", "MqttBinary::decode", p.message)),
        Ok(Ok((s, c))) => {
            rep.hit("D7-standalone-decoders");
            if c > data.len() || s.size() != c || s.to_continuous_buffer() != data[..c] {
                rep.violate(fail("D7-standalone-decoders", "MqttBinary::decode", format!("accepted: consumed {}, size {}", c, s.size())));
            }
        }
        Ok(Err(_)) => {}
    }
    match guard::call(|| VariableByteInteger::decode_stream(&data)) {
        Err(p) => rep.violate(fail("D1-no-panic", "VariableByteInteger::decode_stream", p.message)),
        Ok(res) => {
            rep.hit("D8-vbi-equals-reference");
            let want = rc::vbi_decode(&data);
            let ok = match (&res, &want) {
                (DecodeResult::Ok(v, n), Ok((wv, wn))) => v.to_u32() == *wv && n == wn && v.size() == *wn,
                (DecodeResult::Incomplete, Err(e)) => e.contains("truncated"),
                (DecodeResult::Err(_), Err(e)) => !e.contains("truncated"),
                _ => false,
            };
            if !ok {
                rep.violate(fail("D8-vbi-equals-reference", "VariableByteInteger::decode_stream", format!("library {:?}, reference {:?}", res, want)));
            }
        }
    }
    match guard::call(|| Property::parse(&data)) {
        Err(p) => rep.violate(fail("D1-no-panic", "Property::parse", p.message)),
        Ok(Ok((p, c))) => {
            rep.hit("D7-standalone-decoders");
            let b = p.to_continuous_buffer();
            let again = Property::parse(&b);
            if c > data.len() || p.size() != b.len() || !matches!(&again, Ok((p2, c2)) if *p2 == p && *c2 == b.len()) {
                rep.violate(fail("D7-standalone-decoders", "Property::parse", format!("accepted {:?}: consumed {}, size {}, serialisation {}", p.id(), c, p.size(), hex(&b))));
            }
        }
        Ok(Err(_)) => {}
    }
    match guard::call(|| <Properties as PropertiesParse>::parse(&data)) {
        Err(p) => rep.violate(fail("D1-no-panic", "Properties::parse", p.message)),
        Ok(Ok((ps, c))) => {
            rep.hit("D7-standalone-decoders");
            let b: Vec<u8> = ps.iter().flat_map(|p| p.to_continuous_buffer()).collect();
            if c > data.len() || ps.size() != b.len() {
                rep.violate(fail("D7-standalone-decoders", "Properties::parse", format!("accepted {} properties: consumed {}, size {}, serialisation {} bytes", ps.len(), c, ps.size(), b.len())));
            }
        }
        Ok(Err(_)) => {}
    }
    match guard::call(|| SubEntry::parse(&data)) {
        Err(p) => rep.violate(fail("D1-no-panic", "SubEntry::parse", p.message)),
        Ok(Ok((e, c))) => {
            rep.hit("D7-standalone-decoders");
            let b = e.to_continuous_buffer();
            if c > data.len() || e.size() != b.len() || b != data[..c.min(data.len())] {
                rep.violate(fail("D7-standalone-decoders", "SubEntry::parse", format!("accepted: consumed {}, size {}, serialisation {}", c, e.size(), hex(&b))));
            }
        }
        Ok(Err(_)) => {}
    }
    // reassembler totality (framing equivalence itself is C09)
    let mut pb = PacketBuilder::new();
    let mut cur = Cursor::new(&data[..]);
    for _ in 0..(data.len() + 2) {
        let before = cur.position();
        match guard::call(|| pb.feed(&mut cur)) {
            Err(p) => {
                rep.violate(fail("D1-no-panic", "PacketBuilder::feed", p.message));
                break;
            }
            Ok(res) => {
                rep.hit("D9-reassembler-total");
                if cur.position() > data.len() as u64 {
                    rep.violate(fail("D2-consumed-within-input", "PacketBuilder::feed", format!("cursor at {} of {}", cur.position(), data.len())));
                    break;
                }
                if matches!(res, PacketBuildResult::Incomplete) && cur.position() == before {
                    break;
                }
            }
        }
    }
}

fn random_case<P: Pid>(seed: u64, rep: &mut Report, case: (u64, u64)) {
    let mut r = Rng::new(seed);
    let n = match r.below(10) {
        0 => 127,
        1 => 128,
        2 => 300,
        _ => r.usize(65),
    };
    let body = r.bytes(n);
    let ty = 1 + r.below(15) as u8;
    let first = (ty << 4) | (r.below(16) as u8);
    let ver = if r.bool() { Ver::V5 } else { Ver::V311 };
    rep.evaluations += 1;
    judge::<P>(first, &body, ver, "uniformly random body", rep, case);
}

pub fn run(ctx: &Ctx) -> Report {
    let kinds = gen::all_kind_versions();
    let kinds_ref = &kinds;
    let rule = "for all 29 packet parsers x id widths {2,4}: (1) exhaustive bodies of length <= 2 (quick) / <= 3 (thorough; PUBLISH x 16 flag nibbles), (2) structured mutations of reference encodings of generated valid packets guided by the reference decoder's field map (length-field +-1/0/max, non-minimal and over-long variable byte integers, id forced to 0, reserved/QoS bits, property duplicated/removed/re-tagged, invalid UTF-8 injected into strings, bit flips, truncation at every offset, insertions of 00/7F/80/FF), (3) uniformly random bodies; plus the standalone decoders (MqttString, MqttBinary, VariableByteInteger vs reference, Property, Properties, SubEntry, PacketBuilder::feed). distinct = distinct (kind, version, parser version, id width, mutation names, accepted?)";
    let mut total = Report::new(rule);
    // (1) exhaustive: one case per (type nibble, version, id width)
    let maxlen = if ctx.tier == Tier::Thorough { 3 } else { 2 };
    let mut jobs: Vec<(u8, Ver, usize)> = Vec::new();
    for (k, v) in kinds.iter() {
        for idw in [2usize, 4] {
            jobs.push((k.nibble(), *v, idw));
        }
    }
    let jobs_ref = &jobs;
    let r1 = run_cases(ctx, 1, jobs.len() as u64, rule, |i, _seed, rep| {
        let (ty, v, idw) = jobs_ref[i as usize];
        // PUBLISH at length 3 with 16 flag nibbles is 2.7e8 parses per (version, width): cap at 2 for PUBLISH flags != canonical
        let ml = if ty == 3 && maxlen == 3 { 2 } else { maxlen };
        if idw == 2 {
            exhaustive_short::<u16>(ty, v, ml, rep, (1, i));
        } else {
            exhaustive_short::<u32>(ty, v, ml, rep, (1, i));
        }
        rep.distinct_case(&[ty, v as u8, idw as u8, 0xEE]);
    });
    total.merge(r1);
    // (2) mutations
    let n2 = ctx.budget(1_500_000, 120_000_000);
    let r2 = run_cases(ctx, 2, n2, rule, |i, seed, rep| {
        if i % 2 == 0 {
            mutation_case::<u16>(seed, rep, (2, i), kinds_ref);
        } else {
            mutation_case::<u32>(seed, rep, (2, i), kinds_ref);
        }
    });
    total.merge(r2);
    // (2b) directed: one property repeated 2 .. 1000 times in every location that carries properties (a tally of
    // occurrences must not overflow or wrap whatever its width)
    let r2b = run_cases(ctx, 5, 2, rule, |i, _seed, rep| {
        use crate::checks::c18::{carrier, legal_value, with_auth_method};
        for (id, _, _) in PROP_TABLE.iter() {
            for loc in ALL_LOCS {
                if !prop_allowed(*id, loc) {
                    continue;
                }
                for count in [2usize, 3, 127, 128, 255, 256, 257, 511, 512, 1000] {
                    let p = Prop { id: *id, val: legal_value(*id) };
                    let list: Vec<Prop> = (0..count).map(|_| p.clone()).collect();
                    let (props, auth_has_method) = if *id == 21 { (list, false) } else { with_auth_method(loc, list) };
                    let a = carrier(loc, props, auth_has_method, (count % 2) as u8);
                    let idw = if i == 0 { 2 } else { 4 };
                    let frame = rc::encode(&a, idw);
                    let crate::refcodec::Framed::Frame { first, body_off, total } = rc::frame_at(&frame) else { continue };
                    rep.hit("D8-property-repeated-many-times");
                    let origin = format!("property {} x{} in {:?}", id, count, loc);
                    if i == 0 {
                        judge::<u16>(first, &frame[body_off..total], Ver::V5, &origin, rep, (5, i));
                    } else {
                        judge::<u32>(first, &frame[body_off..total], Ver::V5, &origin, rep, (5, i));
                    }
                    rep.distinct_case(format!("rep {} {} {:?} {}", id, count, loc, i).as_bytes());
                }
            }
        }
    });
    total.merge(r2b);
    // (3) random
    let n3 = ctx.budget(400_000, 30_000_000);
    let r3 = run_cases(ctx, 3, n3, rule, |i, seed, rep| {
        if i % 2 == 0 {
            random_case::<u16>(seed, rep, (3, i));
        } else {
            random_case::<u32>(seed, rep, (3, i));
        }
    });
    total.merge(r3);
    let n4 = ctx.budget(300_000, 20_000_000);
    let r4 = run_cases(ctx, 4, n4, rule, |i, seed, rep| standalone(seed, rep, (4, i)));
    total.merge(r4);
    total.extra.insert("exhaustive_body_length".into(), json!(maxlen));
    total.assumptions.push("'satisfies the structural rules the builders enforce' is decided by feeding the values read through the public accessors to the public builder of the same kind (R1); bits no accessor/builder can express are counted as noncanonical_accepted and not judged (R2)".into());
    if ctx.replay.is_none() {
        total.require_hits(&[
            ("D1-no-panic", 100_000),
            ("D3-size-equals-serialisation", 10_000),
            ("D4-reparse-yields-equal-packet", 10_000),
            ("D6-builders-accept-accepted-values", 10_000),
            ("D8-vbi-equals-reference", 10_000),
        ]);
    }
    total
}

/// small single-threaded workload for the Miri shards
pub fn miri_workload(seed: u64, n: usize) -> Report {
    let mut rep = Report::new("miri shard: mutated and random parses");
    let kinds = gen::all_kind_versions();
    for i in 0..n as u64 {
        let s = crate::rng::derive(seed, 4, i);
        match i % 4 {
            0 => mutation_case::<u16>(s, &mut rep, (0, i), &kinds),
            1 => mutation_case::<u32>(s, &mut rep, (0, i), &kinds),
            2 => random_case::<u16>(s, &mut rep, (0, i)),
            _ => standalone(s, &mut rep, (0, i)),
        }
    }
    // every one-byte body for two parsers with strings (the unsafe as_str sits behind them)
    for b in 0..=255u8 {
        judge::<u16>(0x30, &[0, 1, b], Ver::V5, "miri one-byte topic", &mut rep, (0, 0));
    }
    rep
}
