//! Own PRNG (xoshiro256** seeded through SplitMix64); no external crates.

#[derive(Clone, Debug)]
pub struct Rng {
    s: [u64; 4],
}

pub fn splitmix(x: &mut u64) -> u64 {
    *x = x.wrapping_add(0x9E37_79B9_7F4A_7C15);
    let mut z = *x;
    z = (z ^ (z >> 30)).wrapping_mul(0xBF58_476D_1CE4_E5B9);
    z = (z ^ (z >> 27)).wrapping_mul(0x94D0_49BB_1331_11EB);
    z ^ (z >> 31)
}

/// Derive an independent seed from (seed, stream, index).
pub fn derive(seed: u64, stream: u64, index: u64) -> u64 {
    let mut x = seed ^ stream.wrapping_mul(0xD6E8_FEB8_6659_FD93) ^ index.wrapping_mul(0xA076_1D64_78BD_642F);
    let a = splitmix(&mut x);
    let b = splitmix(&mut x);
    a ^ b.rotate_left(17)
}

impl Rng {
    pub fn new(seed: u64) -> Self {
        let mut x = seed;
        let s = [splitmix(&mut x), splitmix(&mut x), splitmix(&mut x), splitmix(&mut x)];
        Rng { s }
    }
    #[inline]
    pub fn next_u64(&mut self) -> u64 {
        let r = self.s[1].wrapping_mul(5).rotate_left(7).wrapping_mul(9);
        let t = self.s[1] << 17;
        self.s[2] ^= self.s[0];
        self.s[3] ^= self.s[1];
        self.s[1] ^= self.s[2];
        self.s[0] ^= self.s[3];
        self.s[2] ^= t;
        self.s[3] = self.s[3].rotate_left(45);
        r
    }
    /// uniform in 0..n (n>0)
    #[inline]
    pub fn below(&mut self, n: u64) -> u64 {
        debug_assert!(n > 0);
        ((self.next_u64() as u128 * n as u128) >> 64) as u64
    }
    #[inline]
    pub fn usize(&mut self, n: usize) -> usize {
        self.below(n as u64) as usize
    }
    /// inclusive range
    #[inline]
    pub fn range(&mut self, lo: u64, hi: u64) -> u64 {
        lo + self.below(hi - lo + 1)
    }
    #[inline]
    pub fn chance(&mut self, num: u64, den: u64) -> bool {
        self.below(den) < num
    }
    #[inline]
    pub fn bool(&mut self) -> bool {
        self.next_u64() & 1 == 1
    }
    pub fn pick<'a, T>(&mut self, xs: &'a [T]) -> &'a T {
        &xs[self.usize(xs.len())]
    }
    pub fn pick_copy<T: Copy>(&mut self, xs: &[T]) -> T {
        xs[self.usize(xs.len())]
    }
    pub fn bytes(&mut self, n: usize) -> Vec<u8> {
        (0..n).map(|_| self.next_u64() as u8).collect()
    }
    pub fn byte(&mut self) -> u8 {
        self.next_u64() as u8
    }
    /// weighted choice: returns index
    pub fn weighted(&mut self, w: &[u32]) -> usize {
        let total: u64 = w.iter().map(|x| *x as u64).sum();
        let mut r = self.below(total.max(1));
        for (i, x) in w.iter().enumerate() {
            if r < *x as u64 {
                return i;
            }
            r -= *x as u64;
        }
        w.len() - 1
    }
}

/// FNV-1a 64 for hashing cases into "distinct" sets.
pub fn fnv(bytes: &[u8]) -> u64 {
    let mut h: u64 = 0xcbf29ce484222325;
    for b in bytes {
        h ^= *b as u64;
        h = h.wrapping_mul(0x100000001b3);
    }
    h
}
