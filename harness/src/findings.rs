//! known_findings.json: committed list of genuine defects recorded rather than repaired
//! (status "known") and of repaired ones (status "fixed", which suppress nothing).

use serde_json::Value;

#[derive(Clone, Debug)]
pub struct Finding {
    pub property: String,
    pub signature: String,
    pub what: String,
    pub status: String,
}

pub fn load(path: &str) -> Vec<Finding> {
    let Ok(txt) = std::fs::read_to_string(path) else { return vec![] };
    let Ok(v) = serde_json::from_str::<Value>(&txt) else {
        eprintln!("warning: {} is not valid JSON; treating as empty", path);
        return vec![];
    };
    let mut out = Vec::new();
    if let Some(arr) = v.get("findings").and_then(|a| a.as_array()) {
        for f in arr {
            let g = |k: &str| f.get(k).and_then(|x| x.as_str()).unwrap_or("").to_string();
            out.push(Finding { property: g("property"), signature: g("signature"), what: g("what"), status: g("status") });
        }
    }
    out
}

/// Is this violation signature a listed *known* finding of this property?
pub fn is_known<'a>(fs: &'a [Finding], property: &str, signature: &str) -> Option<&'a Finding> {
    fs.iter().find(|f| f.status == "known" && f.property == property && f.signature == signature)
}
