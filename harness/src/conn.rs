//! `dyn Conn`: one object-safe wrapper over the six instantiations {Client,Server,Any} x {u16,u32}
//! of `GenericConnection`. Everything crosses this boundary as abstract packets / abstract events,
//! every library call runs under `guard::call`.

use crate::apkt::*;
use crate::bridge::{self, BuildErr, Pid};
use crate::guard::{self, PanicInfo};
use mqtt_protocol_core::mqtt::common::{Cursor, HashSet};
use mqtt_protocol_core::mqtt::connection::role;
use mqtt_protocol_core::mqtt::connection::role::RoleType;
use mqtt_protocol_core::mqtt::connection::{GenericConnection, GenericEvent, Sendable, TimerKind};
use mqtt_protocol_core::mqtt::packet::{GenericPacket, GenericPacketTrait, GenericStorePacket};
use mqtt_protocol_core::mqtt::Version;
use serde::Serialize;
use std::collections::BTreeSet;

#[derive(Clone, Copy, Debug, PartialEq, Eq, Hash, Serialize, PartialOrd, Ord)]
pub enum Role {
    Client,
    Server,
    Any,
}
#[derive(Clone, Copy, Debug, PartialEq, Eq, Hash, Serialize, PartialOrd, Ord)]
pub enum LVer {
    V311,
    V5,
    Undetermined,
}
impl LVer {
    pub fn to_ver(self) -> Option<Ver> {
        match self {
            LVer::V311 => Some(Ver::V311),
            LVer::V5 => Some(Ver::V5),
            LVer::Undetermined => None,
        }
    }
    pub fn from_ver(v: Ver) -> LVer {
        match v {
            Ver::V311 => LVer::V311,
            Ver::V5 => LVer::V5,
        }
    }
}
#[derive(Clone, Copy, Debug, PartialEq, Eq, Hash, Serialize, PartialOrd, Ord)]
pub enum Timer {
    PingreqSend,
    PingreqRecv,
    PingrespRecv,
}
pub const ALL_TIMERS: [Timer; 3] = [Timer::PingreqSend, Timer::PingreqRecv, Timer::PingrespRecv];

#[derive(Clone, Debug, PartialEq, Eq, Serialize)]
pub enum Ev {
    Send { pkt: Pkt, size: usize, bytes: Vec<u8>, release_on_err: Option<u32> },
    /// `enc`: (size(), serialised length, Remaining Length frames exactly that many bytes) of the delivered packet
    Recv { pkt: Pkt, extracted: bool, enc: (usize, usize, bool) },
    Released(u32),
    TimerReset { kind: Timer, ms: u64 },
    TimerCancel(Timer),
    Error(String),
    Close,
}
impl Ev {
    pub fn short(&self) -> String {
        match self {
            Ev::Send { pkt, size, release_on_err, .. } => format!("Send[{} {}B rel={:?}]", pkt.short(), size, release_on_err),
            Ev::Recv { pkt, extracted, .. } => format!("Recv[{}{}]", pkt.short(), if *extracted { " extracted" } else { "" }),
            Ev::Released(i) => format!("Released({})", i),
            Ev::TimerReset { kind, ms } => format!("TimerReset({:?},{})", kind, ms),
            Ev::TimerCancel(k) => format!("TimerCancel({:?})", k),
            Ev::Error(e) => format!("Error({})", e),
            Ev::Close => "Close".into(),
        }
    }
    pub fn is_error(&self) -> bool {
        matches!(self, Ev::Error(_))
    }
}
pub fn evs_short(evs: &[Ev]) -> String {
    let v: Vec<String> = evs.iter().map(|e| e.short()).collect();
    format!("[{}]", v.join(", "))
}

/// Normalise an event list: sort each maximal run of consecutive Released events
/// (hash-set drain order differs between objects with identical histories, DESIGN §2.3).
pub fn normalise(evs: &[Ev]) -> Vec<Ev> {
    let mut out: Vec<Ev> = Vec::with_capacity(evs.len());
    let mut run: Vec<u32> = Vec::new();
    for e in evs {
        if let Ev::Released(i) = e {
            run.push(*i);
        } else {
            if !run.is_empty() {
                run.sort();
                out.extend(run.drain(..).map(Ev::Released));
            }
            out.push(e.clone());
        }
    }
    run.sort();
    out.extend(run.drain(..).map(Ev::Released));
    out
}

pub type R<T> = Result<T, PanicInfo>;

#[derive(Clone, Copy, Debug, PartialEq, Eq, Serialize)]
pub enum Opt {
    OfflinePublish,
    AutoPubResponse,
    AutoPingResponse,
    AutoMapTopicAlias,
    AutoReplaceTopicAlias,
}
pub const ALL_OPTS: [Opt; 5] = [Opt::OfflinePublish, Opt::AutoPubResponse, Opt::AutoPingResponse, Opt::AutoMapTopicAlias, Opt::AutoReplaceTopicAlias];

/// How `send` reached the library.
#[derive(Clone, Copy, Debug, PartialEq, Eq, Serialize)]
pub enum Via {
    /// send(GenericPacket)
    Dynamic,
    /// checked_send(concrete packet) - only possible when `T: Sendable<Role, Id>` holds
    Checked,
    /// checked_send(GenericPacket)
    CheckedGeneric,
}

#[derive(Debug, Clone)]
pub enum SendOutcome {
    Events(Vec<Ev>),
    /// the abstract packet could not be built (builder error text)
    NotBuilt(BuildErr),
    /// `Via::Checked` requested but the concrete type is not Sendable for this role (compile-time refusal)
    NotSendable,
}

pub trait Conn: Send {
    fn role(&self) -> Role;
    fn id_width(&self) -> usize;
    fn max_id(&self) -> u32;
    fn send(&mut self, p: &Pkt, via: Via) -> R<SendOutcome>;
    /// is the concrete type of this packet Sendable for this role at compile time?
    fn sendable_static(&self, p: &Pkt) -> Option<bool>;
    /// one recv() call on a cursor over `data`; returns (events, bytes consumed)
    fn recv(&mut self, data: &[u8]) -> R<(Vec<Ev>, usize)>;
    fn notify_timer_fired(&mut self, k: Timer) -> R<Vec<Ev>>;
    fn notify_closed(&mut self) -> R<Vec<Ev>>;
    fn set_opt(&mut self, o: Opt, on: bool) -> R<()>;
    fn set_pingreq_send_interval(&mut self, ms: Option<u64>) -> R<Vec<Ev>>;
    fn set_pingresp_recv_timeout(&mut self, ms: u64) -> R<()>;
    fn acquire(&mut self) -> R<Result<u32, String>>;
    fn register(&mut self, id: u32) -> R<Result<(), String>>;
    fn release(&mut self, id: u32) -> R<Vec<Ev>>;
    fn erase_stored(&mut self, id: u32) -> R<Vec<Ev>>;
    fn stored(&self) -> R<Vec<Pkt>>;
    fn restore_packets(&mut self, ps: &[Pkt]) -> R<usize>;
    fn handled(&self) -> R<BTreeSet<u32>>;
    fn restore_handled(&mut self, ids: &BTreeSet<u32>) -> R<()>;
    fn vacancy(&self) -> R<Option<u16>>;
    fn version(&self) -> LVer;
    /// hook digest (Debug text of every field), None when built without hooks
    fn digest(&self) -> Option<String>;
    /// hook: ids in use among `ids`
    fn in_use_hook(&self, ids: &[u32]) -> Option<Vec<u32>>;
    fn regulate_for_store(&self, p: &Pkt) -> R<Result<Pkt, String>>;
}

pub struct Wrap<Ro: RoleType, P: Pid> {
    pub c: GenericConnection<Ro, P>,
    role: Role,
}

fn lver(v: Version) -> LVer {
    match v {
        Version::V3_1_1 => LVer::V311,
        Version::V5_0 => LVer::V5,
        Version::Undetermined => LVer::Undetermined,
    }
}
fn to_version(v: LVer) -> Version {
    match v {
        LVer::V311 => Version::V3_1_1,
        LVer::V5 => Version::V5_0,
        LVer::Undetermined => Version::Undetermined,
    }
}
fn tk(k: Timer) -> TimerKind {
    match k {
        Timer::PingreqSend => TimerKind::PingreqSend,
        Timer::PingreqRecv => TimerKind::PingreqRecv,
        Timer::PingrespRecv => TimerKind::PingrespRecv,
    }
}
fn kt(k: TimerKind) -> Timer {
    match k {
        TimerKind::PingreqSend => Timer::PingreqSend,
        TimerKind::PingreqRecv => Timer::PingreqRecv,
        TimerKind::PingrespRecv => Timer::PingrespRecv,
    }
}

pub fn conv_events<P: Pid>(evs: Vec<GenericEvent<P>>) -> Vec<Ev> {
    evs.into_iter()
        .map(|e| match e {
            GenericEvent::NotifyPacketReceived(p) => {
                let extracted = match &p {
                    GenericPacket::V5_0Publish(x) => x.topic_name_extracted(),
                    _ => false,
                };
                // (only small packets are re-serialised: the directed 17 MB .. 256 MB frames are judged elsewhere)
                let enc = if p.size() <= 1 << 20 {
                    let b = p.to_continuous_buffer();
                    let framed = matches!(crate::refcodec::frame_at(&b), crate::refcodec::Framed::Frame { total, .. } if total == b.len());
                    (p.size(), b.len(), framed)
                } else {
                    (p.size(), p.size(), true)
                };
                Ev::Recv { pkt: bridge::from_lib(&p), extracted, enc }
            }
            GenericEvent::RequestSendPacket { packet, release_packet_id_if_send_error } => Ev::Send {
                pkt: bridge::from_lib(&packet),
                size: packet.size(),
                bytes: packet.to_continuous_buffer(),
                release_on_err: release_packet_id_if_send_error.map(|i| i.to_u32()),
            },
            GenericEvent::NotifyPacketIdReleased(i) => Ev::Released(i.to_u32()),
            GenericEvent::RequestTimerReset { kind, duration_ms } => Ev::TimerReset { kind: kt(kind), ms: duration_ms },
            GenericEvent::RequestTimerCancel(k) => Ev::TimerCancel(kt(k)),
            GenericEvent::NotifyError(e) => Ev::Error(format!("{:?}", e)),
            GenericEvent::RequestClose => Ev::Close,
        })
        .collect()
}

fn store_pkt<P: Pid>(p: &Pkt) -> Option<GenericStorePacket<P>> {
    match bridge::to_lib::<P>(p).ok()? {
        GenericPacket::V3_1_1Publish(x) => x.try_into().ok(),
        GenericPacket::V5_0Publish(x) => x.try_into().ok(),
        GenericPacket::V3_1_1Pubrel(x) => x.try_into().ok(),
        GenericPacket::V5_0Pubrel(x) => x.try_into().ok(),
        _ => None,
    }
}

// ---- autoref-specialisation probe: "is T: Sendable<Ro, P>?" decided per concrete (Ro, P, T) ----------
pub struct Probe<'a, Ro: RoleType, P: Pid, T> {
    pub conn: &'a mut GenericConnection<Ro, P>,
    pub pkt: Option<T>,
    pub dry: bool,
}
pub trait ViaChecked<P: Pid> {
    fn go(&mut self) -> Option<Vec<GenericEvent<P>>>;
}
impl<'a, Ro: RoleType, P: Pid, T: Sendable<Ro, P>> ViaChecked<P> for Probe<'a, Ro, P, T> {
    fn go(&mut self) -> Option<Vec<GenericEvent<P>>> {
        if self.dry {
            return Some(Vec::new());
        }
        let p = self.pkt.take().unwrap();
        Some(self.conn.checked_send(p))
    }
}
pub trait ViaNone<P: Pid> {
    fn go(&mut self) -> Option<Vec<GenericEvent<P>>>;
}
impl<'a, 'b, Ro: RoleType, P: Pid, T> ViaNone<P> for &'b mut Probe<'a, Ro, P, T> {
    fn go(&mut self) -> Option<Vec<GenericEvent<P>>> {
        None
    }
}

macro_rules! probe_variant {
    ($conn:expr, $x:expr, $dry:expr) => {{
        let mut pr = Probe { conn: $conn, pkt: Some($x), dry: $dry };
        #[allow(unused_imports)]
        use $crate::conn::{ViaChecked as _, ViaNone as _};
        (&mut pr).go()
    }};
}

macro_rules! impl_conn {
    ($ro:ty, $rname:expr, $p:ty) => {
        impl Wrap<$ro, $p> {
            /// checked_send with the concrete packet type when `T: Sendable<Role, Id>`; None when it is not
            fn checked_dispatch(&mut self, g: GenericPacket<$p>, dry: bool) -> Option<Vec<GenericEvent<$p>>> {
                use GenericPacket as G;
                let c = &mut self.c;
                match g {
                    G::V3_1_1Connect(x) => probe_variant!(c, x, dry),
                    G::V3_1_1Connack(x) => probe_variant!(c, x, dry),
                    G::V3_1_1Subscribe(x) => probe_variant!(c, x, dry),
                    G::V3_1_1Suback(x) => probe_variant!(c, x, dry),
                    G::V3_1_1Unsubscribe(x) => probe_variant!(c, x, dry),
                    G::V3_1_1Unsuback(x) => probe_variant!(c, x, dry),
                    G::V3_1_1Publish(x) => probe_variant!(c, x, dry),
                    G::V3_1_1Puback(x) => probe_variant!(c, x, dry),
                    G::V3_1_1Pubrec(x) => probe_variant!(c, x, dry),
                    G::V3_1_1Pubrel(x) => probe_variant!(c, x, dry),
                    G::V3_1_1Pubcomp(x) => probe_variant!(c, x, dry),
                    G::V3_1_1Disconnect(x) => probe_variant!(c, x, dry),
                    G::V3_1_1Pingreq(x) => probe_variant!(c, x, dry),
                    G::V3_1_1Pingresp(x) => probe_variant!(c, x, dry),
                    G::V5_0Connect(x) => probe_variant!(c, x, dry),
                    G::V5_0Connack(x) => probe_variant!(c, x, dry),
                    G::V5_0Subscribe(x) => probe_variant!(c, x, dry),
                    G::V5_0Suback(x) => probe_variant!(c, x, dry),
                    G::V5_0Unsubscribe(x) => probe_variant!(c, x, dry),
                    G::V5_0Unsuback(x) => probe_variant!(c, x, dry),
                    G::V5_0Publish(x) => probe_variant!(c, x, dry),
                    G::V5_0Puback(x) => probe_variant!(c, x, dry),
                    G::V5_0Pubrec(x) => probe_variant!(c, x, dry),
                    G::V5_0Pubrel(x) => probe_variant!(c, x, dry),
                    G::V5_0Pubcomp(x) => probe_variant!(c, x, dry),
                    G::V5_0Disconnect(x) => probe_variant!(c, x, dry),
                    G::V5_0Pingreq(x) => probe_variant!(c, x, dry),
                    G::V5_0Pingresp(x) => probe_variant!(c, x, dry),
                    G::V5_0Auth(x) => probe_variant!(c, x, dry),
                }
            }
        }
        impl Conn for Wrap<$ro, $p> {
            fn role(&self) -> Role {
                $rname
            }
            fn id_width(&self) -> usize {
                <$p as Pid>::WIDTH
            }
            fn max_id(&self) -> u32 {
                <$p as Pid>::max_u32()
            }
            fn send(&mut self, p: &Pkt, via: Via) -> R<SendOutcome> {
                let g = match guard::call(|| bridge::to_lib::<$p>(p))? {
                    Ok(g) => g,
                    Err(e) => return Ok(SendOutcome::NotBuilt(e)),
                };
                guard::call(|| match via {
                    Via::Dynamic => SendOutcome::Events(conv_events(self.c.send(g))),
                    Via::CheckedGeneric => SendOutcome::Events(conv_events(self.c.checked_send(g))),
                    Via::Checked => match self.checked_dispatch(g, false) {
                        Some(evs) => SendOutcome::Events(conv_events(evs)),
                        None => SendOutcome::NotSendable,
                    },
                })
            }
            fn sendable_static(&self, p: &Pkt) -> Option<bool> {
                let g = bridge::to_lib::<$p>(p).ok()?;
                // dry run on a scratch connection: nothing is sent, only the trait bound is observed
                let mut scratch = Wrap::<$ro, $p> { c: GenericConnection::<$ro, $p>::new(Version::V5_0), role: $rname };
                Some(scratch.checked_dispatch(g, true).is_some())
            }
            fn recv(&mut self, data: &[u8]) -> R<(Vec<Ev>, usize)> {
                guard::call(|| {
                    let mut cur = Cursor::new(data);
                    let evs = self.c.recv(&mut cur);
                    (conv_events(evs), cur.position() as usize)
                })
            }
            fn notify_timer_fired(&mut self, k: Timer) -> R<Vec<Ev>> {
                guard::call(|| conv_events(self.c.notify_timer_fired(tk(k))))
            }
            fn notify_closed(&mut self) -> R<Vec<Ev>> {
                guard::call(|| conv_events(self.c.notify_closed()))
            }
            fn set_opt(&mut self, o: Opt, on: bool) -> R<()> {
                guard::call(|| match o {
                    Opt::OfflinePublish => self.c.set_offline_publish(on),
                    Opt::AutoPubResponse => self.c.set_auto_pub_response(on),
                    Opt::AutoPingResponse => self.c.set_auto_ping_response(on),
                    Opt::AutoMapTopicAlias => self.c.set_auto_map_topic_alias_send(on),
                    Opt::AutoReplaceTopicAlias => self.c.set_auto_replace_topic_alias_send(on),
                })
            }
            fn set_pingreq_send_interval(&mut self, ms: Option<u64>) -> R<Vec<Ev>> {
                guard::call(|| conv_events(self.c.set_pingreq_send_interval(ms)))
            }
            fn set_pingresp_recv_timeout(&mut self, ms: u64) -> R<()> {
                guard::call(|| self.c.set_pingresp_recv_timeout(ms))
            }
            fn acquire(&mut self) -> R<Result<u32, String>> {
                guard::call(|| self.c.acquire_packet_id().map(|i| i.to_u32()).map_err(|e| format!("{:?}", e)))
            }
            fn register(&mut self, id: u32) -> R<Result<(), String>> {
                if id > <$p as Pid>::max_u32() {
                    return Ok(Err("id exceeds the id type".into()));
                }
                guard::call(|| self.c.register_packet_id(<$p as Pid>::from_u32(id)).map_err(|e| format!("{:?}", e)))
            }
            fn release(&mut self, id: u32) -> R<Vec<Ev>> {
                guard::call(|| conv_events(self.c.release_packet_id(<$p as Pid>::from_u32(id))))
            }
            fn erase_stored(&mut self, id: u32) -> R<Vec<Ev>> {
                guard::call(|| conv_events(self.c.erase_stored_publish(<$p as Pid>::from_u32(id))))
            }
            fn stored(&self) -> R<Vec<Pkt>> {
                guard::call(|| self.c.get_stored_packets().iter().map(|sp| bridge::from_lib(&bridge::store_to_generic(sp))).collect())
            }
            fn restore_packets(&mut self, ps: &[Pkt]) -> R<usize> {
                let v: Vec<GenericStorePacket<$p>> = ps.iter().filter_map(|p| store_pkt::<$p>(p)).collect();
                let n = v.len();
                guard::call(|| {
                    self.c.restore_packets(v);
                    n
                })
            }
            fn handled(&self) -> R<BTreeSet<u32>> {
                guard::call(|| self.c.get_qos2_publish_handled().iter().map(|i| i.to_u32()).collect())
            }
            fn restore_handled(&mut self, ids: &BTreeSet<u32>) -> R<()> {
                let mut hs: HashSet<$p> = HashSet::default();
                for i in ids {
                    hs.insert(<$p as Pid>::from_u32(*i));
                }
                guard::call(|| self.c.restore_qos2_publish_handled(hs))
            }
            fn vacancy(&self) -> R<Option<u16>> {
                guard::call(|| self.c.get_receive_maximum_vacancy_for_send())
            }
            fn version(&self) -> LVer {
                lver(self.c.get_protocol_version())
            }
            fn digest(&self) -> Option<String> {
                #[cfg(feature = "hooks")]
                {
                    Some(format!("{:?}", self.c.verif_state()))
                }
                #[cfg(not(feature = "hooks"))]
                {
                    None
                }
            }
            fn in_use_hook(&self, ids: &[u32]) -> Option<Vec<u32>> {
                #[cfg(feature = "hooks")]
                {
                    let free = self.c.verif_state().pid_free_intervals;
                    let is_free = |i: u32| free.iter().any(|(a, b)| a.to_u32() <= i && i <= b.to_u32());
                    Some(ids.iter().copied().filter(|i| *i >= 1 && *i <= <$p as Pid>::max_u32() && !is_free(*i)).collect())
                }
                #[cfg(not(feature = "hooks"))]
                {
                    let _ = ids;
                    None
                }
            }
            fn regulate_for_store(&self, p: &Pkt) -> R<Result<Pkt, String>> {
                let g = match bridge::to_lib::<$p>(p) {
                    Ok(GenericPacket::V5_0Publish(x)) => x,
                    _ => return Ok(Err("not a v5 publish".into())),
                };
                guard::call(|| self.c.regulate_for_store(g).map(|x| bridge::from_lib(&GenericPacket::<$p>::V5_0Publish(x))).map_err(|e| format!("{:?}", e)))
            }
        }
    };
}

impl_conn!(role::Client, Role::Client, u16);
impl_conn!(role::Client, Role::Client, u32);
impl_conn!(role::Server, Role::Server, u16);
impl_conn!(role::Server, Role::Server, u32);
impl_conn!(role::Any, Role::Any, u16);
impl_conn!(role::Any, Role::Any, u32);

pub fn new_conn(role: Role, idw: usize, ver: LVer) -> Box<dyn Conn> {
    let v = to_version(ver);
    match (role, idw) {
        (Role::Client, 2) => Box::new(Wrap::<role::Client, u16> { c: GenericConnection::new(v), role }),
        (Role::Client, _) => Box::new(Wrap::<role::Client, u32> { c: GenericConnection::new(v), role }),
        (Role::Server, 2) => Box::new(Wrap::<role::Server, u16> { c: GenericConnection::new(v), role }),
        (Role::Server, _) => Box::new(Wrap::<role::Server, u32> { c: GenericConnection::new(v), role }),
        (Role::Any, 2) => Box::new(Wrap::<role::Any, u16> { c: GenericConnection::new(v), role }),
        (Role::Any, _) => Box::new(Wrap::<role::Any, u32> { c: GenericConnection::new(v), role }),
    }
}
