//! Generators of spec-conformant abstract packets (domain of C02/C03, seed corpus of C04/C09).

use crate::apkt::*;
use crate::refcodec as rc;
use crate::rng::Rng;

pub const LEN_BOUNDARY: &[usize] = &[
    0, 1, 2, 3, 9, 10, 11, 12, 13, 14, 15, 16, 21, 22, 23, 24, 25, 29, 30, 31, 32, 33, 45, 46, 47, 48, 49, 50, 110, 111, 112, 113,
    124, 125, 126, 127, 128, 129, 130, 253, 254, 255, 256, 257,
];
pub const LEN_BIG: &[usize] = &[16_370, 16_380, 16_381, 16_382, 16_383, 16_384, 16_385, 65_520, 65_533, 65_534, 65_535];
pub const LEN_HUGE: &[usize] = &[2_097_140, 2_097_148, 2_097_149, 2_097_150, 2_097_151, 2_097_152, 2_097_153];

#[derive(Clone, Copy, Debug)]
pub struct GenCfg {
    /// probability (per mille) of drawing a length from LEN_BIG for a string/binary/payload
    pub big_pm: u64,
    /// probability (per mille) of a LEN_HUGE payload
    pub huge_pm: u64,
    pub idw: usize,
}

pub fn gen_len(r: &mut Rng, cfg: &GenCfg, max: usize) -> usize {
    let l = if r.below(1000) < cfg.big_pm {
        *r.pick(LEN_BIG)
    } else if r.chance(3, 4) {
        *r.pick(LEN_BOUNDARY)
    } else {
        r.usize(40)
    };
    l.min(max)
}

const UTF8_UNITS: &[&str] = &["a", "z", "/", "é", "ß", "€", "\u{FFFD}", "𐍈", "\u{10FFFF}", "\u{7F}", "\u{80}", "\u{7FF}", "\u{800}", "\u{FFFF}", "\u{10000}", " ", "\u{FEFF}", "\u{200B}", "\u{A0}", "\u{2028}", "e\u{301}", "\u{1}", "\t", "$", "A", "\u{123}", "\u{42B}", "\u{124}", "\u{12F}", "\u{100}", "\u{202B}", "\u{1F623}", "\u{1F62B}"];

/// valid UTF-8 of exactly `len` bytes (mixing 1..4-byte scalars, padded with ASCII)
pub fn utf8_of_len(r: &mut Rng, len: usize, ascii_only: bool) -> Vec<u8> {
    let mut out = Vec::with_capacity(len);
    if len > 300 || ascii_only {
        out.resize(len, b'x');
        if len > 0 && !ascii_only {
            out[0] = b'k';
        }
        return out;
    }
    // (now and then the string starts or ends with a code point that a lenient implementation might strip: U+FEFF, a space)
    if len >= 3 && r.chance(1, 12) {
        out.extend_from_slice(r.pick(&["\u{FEFF}", " ", "\u{200B}"]).as_bytes());
        if out.len() > len {
            out.clear();
        }
    }
    while out.len() < len {
        let u = r.pick(UTF8_UNITS).as_bytes();
        if out.len() + u.len() <= len && r.chance(1, 3) {
            out.extend_from_slice(u);
        } else {
            out.push(b'a' + (r.below(26) as u8));
        }
    }
    out
}

pub fn gen_string(r: &mut Rng, cfg: &GenCfg) -> Vec<u8> {
    let l = gen_len(r, cfg, 65535);
    utf8_of_len(r, l, false)
}
pub fn gen_short_string(r: &mut Rng) -> Vec<u8> {
    let l = *r.pick(&[0usize, 1, 2, 3, 5, 10, 12, 13, 22, 24, 25]);
    utf8_of_len(r, l, false)
}
pub fn gen_binary(r: &mut Rng, cfg: &GenCfg) -> Vec<u8> {
    let l = gen_len(r, cfg, 65535);
    if l > 300 {
        vec![0xA5; l]
    } else {
        r.bytes(l)
    }
}
/// topic name for PUBLISH / will: non-empty, no wildcards
pub fn gen_topic(r: &mut Rng, cfg: &GenCfg) -> Vec<u8> {
    let l = gen_len(r, cfg, 65535).max(1);
    let mut t = utf8_of_len(r, l, false);
    for b in t.iter_mut() {
        if *b == b'#' || *b == b'+' {
            *b = b'_';
        }
    }
    t
}
/// topic filter for SUBSCRIBE/UNSUBSCRIBE (kept clear of "$share" forms)
pub fn gen_filter(r: &mut Rng, cfg: &GenCfg) -> Vec<u8> {
    match r.below(8) {
        0 => b"#".to_vec(),
        1 => b"+".to_vec(),
        2 => b"a/+/b".to_vec(),
        3 => b"a/#".to_vec(),
        4 => b"$share/grp/a/b".to_vec(),
        _ => {
            let l = gen_len(r, cfg, 65535).max(1);
            let mut t = utf8_of_len(r, l, false);
            if t[0] == b'$' {
                t[0] = b'd';
            }
            t
        }
    }
}
pub fn gen_payload(r: &mut Rng, cfg: &GenCfg) -> Vec<u8> {
    if r.below(1000) < cfg.huge_pm {
        return vec![0x5A; *r.pick(LEN_HUGE)];
    }
    let l = gen_len(r, cfg, 300_000);
    if l > 300 {
        vec![0x5A; l]
    } else {
        r.bytes(l)
    }
}

pub fn gen_id(r: &mut Rng, idw: usize) -> u32 {
    if idw == 2 {
        *r.pick(&[1u32, 2, 3, 255, 256, 0x7FFF, 0x8000, 0xFFFE, 0xFFFF])
    } else {
        *r.pick(&[1u32, 2, 255, 256, 0xFFFF, 0x10000, 0x7FFF_FFFF, 0x8000_0000, 0xFFFF_FFFE, 0xFFFF_FFFF])
    }
}

pub fn gen_prop_value(r: &mut Rng, cfg: &GenCfg, id: u8) -> Prop {
    let val = match prop_type(id).expect("known property id") {
        PType::Byte => PVal::Byte(r.below(2) as u8),
        PType::U16 => PVal::U16(match id {
            33 | 35 => *r.pick(&[1u16, 2, 255, 256, 65535]),
            _ => *r.pick(&[0u16, 1, 2, 255, 256, 65535]),
        }),
        PType::U32 => PVal::U32(match id {
            39 => *r.pick(&[1u32, 2, 127, 128, 65535, 65536, 268_435_455, 268_435_456, u32::MAX]),
            _ => *r.pick(&[0u32, 1, 255, 65536, u32::MAX]),
        }),
        PType::Vbi => PVal::Vbi(*r.pick(&[1u32, 2, 127, 128, 16_383, 16_384, 2_097_151, 2_097_152, 268_435_455])),
        PType::Str => PVal::Str(gen_string(r, cfg)),
        PType::Bin => PVal::Bin(gen_binary(r, cfg)),
        PType::Pair => PVal::Pair(gen_string(r, cfg), gen_string(r, cfg)),
    };
    Prop { id, val }
}

/// 0..n properties allowed in `loc` (spec multiplicity respected), in random order
pub fn gen_props(r: &mut Rng, cfg: &GenCfg, loc: Loc) -> Vec<Prop> {
    let mut out = Vec::new();
    let density = r.below(4); // 0: none, 1: sparse, 2: medium, 3: all
    if density == 0 {
        return out;
    }
    for (id, _, _) in PROP_TABLE.iter() {
        if !prop_allowed(*id, loc) {
            continue;
        }
        let take = match density {
            1 => r.chance(1, 5),
            2 => r.chance(1, 2),
            _ => true,
        };
        if !take {
            continue;
        }
        let reps = if prop_repeatable(*id, loc) { 1 + r.usize(3) } else { 1 };
        for _ in 0..reps {
            out.push(gen_prop_value(r, cfg, *id));
        }
    }
    // AUTH / CONNECT / CONNACK: Authentication Data requires Authentication Method
    if out.iter().any(|p| p.id == 22) && !out.iter().any(|p| p.id == 21) {
        out.push(gen_prop_value(r, cfg, 21));
    }
    // shuffle
    for i in (1..out.len()).rev() {
        let j = r.usize(i + 1);
        out.swap(i, j);
    }
    out
}

fn opt<T>(r: &mut Rng, f: impl FnOnce(&mut Rng) -> T) -> Option<T> {
    if r.bool() {
        Some(f(r))
    } else {
        None
    }
}

pub fn gen_will(r: &mut Rng, cfg: &GenCfg, ver: Ver) -> Will {
    Will {
        topic: gen_topic(r, cfg),
        payload: gen_binary(r, cfg),
        qos: r.below(3) as u8,
        retain: r.bool(),
        props: if ver == Ver::V5 { gen_props(r, cfg, Loc::Will) } else { vec![] },
    }
}

/// A spec-conformant packet of the given kind/version.
pub fn gen_packet(r: &mut Rng, cfg: &GenCfg, kind: Kind, ver: Ver) -> Pkt {
    let v5 = ver == Ver::V5;
    let idw = cfg.idw;
    match kind {
        Kind::Connect => {
            let user = opt(r, |r| gen_string(r, cfg));
            // v3.1.1: password requires user name [MQTT-3.1.2-22]; v5.0 lifted that restriction
            let pass = if user.is_some() || (v5 && r.chance(1, 4)) { opt(r, |r| gen_binary(r, cfg)) } else { None };
            Pkt::Connect {
                ver,
                clean: r.bool(),
                keep_alive: *r.pick(&[0u16, 1, 10, 255, 256, 65535]),
                client_id: gen_string(r, cfg),
                will: if r.bool() { Some(gen_will(r, cfg, ver)) } else { None },
                user,
                pass,
                props: if v5 { gen_props(r, cfg, Loc::Connect) } else { vec![] },
            }
        }
        Kind::Connack => {
            let code = if v5 { *r.pick(rc::CONNACK_V5) } else { *r.pick(rc::CONNACK_V311) };
            Pkt::Connack {
                ver,
                // [MQTT-3.2.2-4]/[MQTT-3.2.2-6]: non-zero code => session present 0
                sp: code == 0 && r.bool(),
                code,
                props: if v5 { gen_props(r, cfg, Loc::Connack) } else { vec![] },
            }
        }
        Kind::Publish => {
            let qos = r.below(3) as u8;
            let mut props = if v5 { gen_props(r, cfg, Loc::Publish) } else { vec![] };
            let has_alias = props.iter().any(|p| p.id == P_TA);
            let topic = if v5 && has_alias && r.chance(1, 3) { vec![] } else { gen_topic(r, cfg) };
            if !v5 {
                props.clear();
            }
            Pkt::Publish {
                ver,
                dup: qos > 0 && r.bool(),
                qos,
                retain: r.bool(),
                topic,
                id: if qos > 0 { Some(gen_id(r, idw)) } else { None },
                props,
                payload: gen_payload(r, cfg),
            }
        }
        Kind::Puback | Kind::Pubrec | Kind::Pubrel | Kind::Pubcomp => {
            let (ak, loc, codes) = match kind {
                Kind::Puback => (AckKind::Puback, Loc::Puback, rc::PUBACK_V5),
                Kind::Pubrec => (AckKind::Pubrec, Loc::Pubrec, rc::PUBREC_V5),
                Kind::Pubrel => (AckKind::Pubrel, Loc::Pubrel, rc::PUBREL_V5),
                _ => (AckKind::Pubcomp, Loc::Pubcomp, rc::PUBCOMP_V5),
            };
            let (code, props) = if v5 {
                match r.below(3) {
                    0 => (None, None),
                    1 => (Some(*r.pick(codes)), None),
                    _ => (Some(*r.pick(codes)), Some(gen_props(r, cfg, loc))),
                }
            } else {
                (None, None)
            };
            Pkt::Ack { ver, kind: ak, id: gen_id(r, idw), code, props }
        }
        Kind::Subscribe => {
            let n = 1 + r.usize(4);
            let entries = (0..n)
                .map(|_| {
                    let f = gen_filter(r, cfg);
                    let shared = f.starts_with(b"$share/");
                    let mut o = r.below(3) as u8;
                    if v5 {
                        // no-local must not be set on a shared subscription [MQTT-3.8.3-4]
                        if r.bool() && !shared {
                            o |= 0x04;
                        }
                        if r.bool() {
                            o |= 0x08;
                        }
                        o |= (r.below(3) as u8) << 4;
                    }
                    (f, o)
                })
                .collect();
            Pkt::Subscribe { ver, id: gen_id(r, idw), props: if v5 { gen_props(r, cfg, Loc::Subscribe) } else { vec![] }, entries }
        }
        Kind::Suback => {
            let n = 1 + r.usize(4);
            let table = if v5 { rc::SUBACK_V5 } else { rc::SUBACK_V311 };
            Pkt::Suback {
                ver,
                id: gen_id(r, idw),
                props: if v5 { gen_props(r, cfg, Loc::Suback) } else { vec![] },
                codes: (0..n).map(|_| *r.pick(table)).collect(),
            }
        }
        Kind::Unsubscribe => {
            let n = 1 + r.usize(4);
            Pkt::Unsubscribe {
                ver,
                id: gen_id(r, idw),
                props: if v5 { gen_props(r, cfg, Loc::Unsubscribe) } else { vec![] },
                entries: (0..n).map(|_| gen_filter(r, cfg)).collect(),
            }
        }
        Kind::Unsuback => {
            let n = 1 + r.usize(4);
            Pkt::Unsuback {
                ver,
                id: gen_id(r, idw),
                props: if v5 { gen_props(r, cfg, Loc::Unsuback) } else { vec![] },
                codes: if v5 { (0..n).map(|_| *r.pick(rc::UNSUBACK_V5)).collect() } else { vec![] },
            }
        }
        Kind::Pingreq => Pkt::Pingreq { ver },
        Kind::Pingresp => Pkt::Pingresp { ver },
        Kind::Disconnect => {
            let (code, props) = if v5 {
                match r.below(3) {
                    0 => (None, None),
                    1 => (Some(*r.pick(rc::DISCONNECT_V5)), None),
                    _ => (Some(*r.pick(rc::DISCONNECT_V5)), Some(gen_props(r, cfg, Loc::Disconnect))),
                }
            } else {
                (None, None)
            };
            Pkt::Disconnect { ver, code, props }
        }
        Kind::Auth => {
            // 3.15: reason Success may omit everything; otherwise an Authentication Method is required
            // (3.15.2.2.1 has no "Remaining Length < 2" clause: a reason code is always followed by a Property Length)
            match r.below(4) {
                0 => Pkt::Auth { code: None, props: None },
                _ => {
                    let mut props = gen_props(r, cfg, Loc::Auth);
                    let code = *r.pick(rc::AUTH_V5);
                    if !props.iter().any(|p| p.id == 21) && (code != 0 || props.iter().any(|p| p.id == 22)) {
                        props.push(gen_prop_value(r, cfg, 21));
                    }
                    Pkt::Auth { code: Some(code), props: Some(props) }
                }
            }
        }
    }
}

/// all (kind, version) pairs that exist: 29
pub fn all_kind_versions() -> Vec<(Kind, Ver)> {
    let mut v = Vec::new();
    for k in ALL_KINDS {
        v.push((k, Ver::V5));
        if k != Kind::Auth {
            v.push((k, Ver::V311));
        }
    }
    v
}
