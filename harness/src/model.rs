//! The reference model the connection monitors share (DESIGN Appendix F).
//! Updated ONLY from what crosses the API boundary (call, arguments, returned events, public probes).
//! Every rule carries the property it belongs to; a check reports only its own property's rules.

use crate::apkt::*;
use crate::conn::*;
use crate::refcodec as rc;
use serde_json::{json, Value};
use std::collections::{BTreeMap, BTreeSet};

#[derive(Clone, Copy, Debug, PartialEq, Eq)]
pub enum St {
    D,
    Cg,
    Cd,
}
#[derive(Clone, Copy, Debug, PartialEq, Eq)]
pub enum Path {
    Client,
    Server,
}
#[derive(Clone, Copy, Debug, PartialEq, Eq)]
pub enum Owner {
    App,
    SubAck,
    UnsubAck,
    PubAck,
    PubRec,
    RelPending,
    PubComp,
}
#[derive(Clone, Copy, Debug, PartialEq, Eq)]
pub enum SKind {
    Pub1,
    Pub2,
    Rel,
}
#[derive(Clone, Debug, PartialEq, Eq)]
pub struct StoreEnt {
    pub id: u32,
    pub kind: SKind,
    pub pkt: Pkt,
}
fn skind(p: &Pkt) -> Option<(u32, SKind)> {
    match p {
        Pkt::Publish { qos: 1, id: Some(i), .. } => Some((*i, SKind::Pub1)),
        Pkt::Publish { qos: 2, id: Some(i), .. } => Some((*i, SKind::Pub2)),
        Pkt::Ack { kind: AckKind::Pubrel, id, .. } => Some((*id, SKind::Rel)),
        _ => None,
    }
}

#[derive(Clone, Debug)]
pub struct Found {
    pub property: &'static str,
    pub rule: &'static str,
    pub attrs: String,
    pub what: String,
}
impl Found {
    pub fn signature(&self) -> String {
        if self.attrs.is_empty() {
            format!("{}.{}", self.property, self.rule)
        } else {
            format!("{}.{}@{}", self.property, self.rule, self.attrs)
        }
    }
}

#[derive(Default)]
pub struct Sink {
    pub found: Vec<Found>,
    pub hits: BTreeMap<&'static str, u64>,
    /// the application has broken its contract in this history (released an id that an exchange still owns): from here
    /// on only the rules that hold whatever the application does are reported
    pub misused: bool,
    /// the application has started a new handshake without reporting the old transport closed: the conservation rules of
    /// the packet ids (nothing becomes free or in use without an announcement / a call) still hold, the rest is not judged
    pub skipped_close: bool,
}
/// rules that do not depend on the application keeping its contract
const UNCONDITIONAL: &[&str] = &["X1-no-panic", "X2-recv-makes-progress", "Z1-sent-size-within-peer-maximum", "Z3-oversize-inbound-not-delivered", "X6-partial-frame-yields-no-events", "X7-overlong-remaining-length-is-an-error", "X8-at-most-one-packet-per-call", "S10-sent-publish-or-pubrel-is-one-well-formed-frame"];
impl Sink {
    pub fn hit(&mut self, rule: &'static str) {
        *self.hits.entry(rule).or_insert(0) += 1;
    }
    pub fn fail(&mut self, property: &'static str, rule: &'static str, attrs: String, what: String) {
        if self.misused && !UNCONDITIONAL.contains(&rule) {
            self.hit("not-judged-after-application-misuse");
            return;
        }
        if self.skipped_close && !UNCONDITIONAL.contains(&rule) && !matches!(rule, "P3-release-announced-only-for-in-use-id" | "P4-in-use-set-equals-model") {
            self.hit("not-judged-after-a-skipped-close");
            return;
        }
        self.found.push(Found { property, rule, attrs, what });
    }
}

/// What the driver did (the call) - the result events come separately.
#[derive(Clone, Debug)]
pub enum Call {
    Send { pkt: Pkt, via: Via },
    /// one recv() call that consumed these bytes
    Recv { bytes: Vec<u8> },
    Timer(Timer),
    Closed,
    Acquire { result: Result<u32, String> },
    Register { id: u32, result: Result<(), String> },
    Release { id: u32 },
    Erase { id: u32 },
    SetOpt { opt: Opt, on: bool },
    SetPingInterval { ms: Option<u64> },
    SetPingrespTimeout { ms: u64 },
    Restore { packets: Vec<Pkt>, handled: BTreeSet<u32> },
}
impl Call {
    pub fn short(&self) -> String {
        match self {
            Call::Send { pkt, via } => format!("send[{:?}]({})", via, pkt.short()),
            Call::Recv { bytes } => format!("recv({})", hexs(bytes)),
            Call::Timer(k) => format!("notify_timer_fired({:?})", k),
            Call::Closed => "notify_closed()".into(),
            Call::Acquire { result } => format!("acquire_packet_id() -> {:?}", result),
            Call::Register { id, result } => format!("register_packet_id({}) -> {:?}", id, result),
            Call::Release { id } => format!("release_packet_id({})", id),
            Call::Erase { id } => format!("erase_stored_publish({})", id),
            Call::SetOpt { opt, on } => format!("set_{:?}({})", opt, on),
            Call::SetPingInterval { ms } => format!("set_pingreq_send_interval({:?})", ms),
            Call::SetPingrespTimeout { ms } => format!("set_pingresp_recv_timeout({})", ms),
            Call::Restore { packets, handled } => format!("restore_packets({} pkts) + restore_qos2_publish_handled({:?})", packets.len(), handled),
        }
    }
    pub fn is_local(&self) -> bool {
        !matches!(self, Call::Recv { .. } | Call::Closed)
    }
}
pub fn hexs(b: &[u8]) -> String {
    let mut s = String::new();
    for (i, x) in b.iter().enumerate() {
        if i >= 48 {
            s.push_str(&format!("..+{}", b.len() - i));
            break;
        }
        s.push_str(&format!("{:02x}", x));
    }
    s
}

#[derive(Clone, Debug)]
pub struct Model {
    pub role: Role,
    pub idw: usize,
    pub max_id: u32,
    pub ver: Option<Ver>,
    // option mirrors
    pub offline: bool,
    pub offline_since_connect: bool,
    pub auto_pub: bool,
    pub auto_ping: bool,
    pub auto_map: bool,
    pub auto_replace: bool,
    pub ping_override: Option<u64>,
    pub resp_to: u64,
    // status
    pub status: St,
    pub path: Option<Path>,
    pub persistent: bool,
    pub connections: u32,
    // ids
    pub in_use: BTreeSet<u32>,
    pub owner: BTreeMap<u32, Owner>,
    pub known_ids: BTreeSet<u32>,
    // store shadow
    pub store: Vec<StoreEnt>,
    pub handled: BTreeSet<u32>,
    // flow control
    pub m_send: Option<u16>,
    pub out: BTreeSet<u32>,
    pub l_recv: Option<u16>,
    pub inn: BTreeSet<u32>,
    // aliases
    pub tam_peer: u16,
    pub bind_out: BTreeMap<u16, Vec<u8>>,
    pub app_alias: BTreeMap<u16, Vec<u8>>,
    /// between the completed handshake and notify_closed()
    pub transport_open: bool,
    /// `app_alias` as it was before the call being judged
    pub app_alias_before: BTreeMap<u16, Vec<u8>>,
    pub tam_local: u16,
    pub bind_in: BTreeMap<u16, Vec<u8>>,
    pub bind_in_unknown: bool,
    // sizes
    pub max_send: Option<u32>,
    pub max_recv: Option<u32>,
    // timers
    pub armed: BTreeSet<Timer>,
    pub ka_ms: u64,
    pub ska_ms: Option<u64>,
    pub recv_k_ms: u64,
    // framing
    pub pending: Vec<u8>,
    /// statistics for evidence
    pub max_inflight: usize,
    pub frames_seen: u64,
    pub resync_handled: bool,
    /// the peer did something no property speaks about (e.g. CONNACK without CONNECT): limit-related
    /// rules are suspended until the next connection
    pub unsynced: bool,
    pub sei_zero_connack: bool,
    pub resync_store: bool,
    /// the history left the domain every property speaks about (e.g. a CONNACK delivered to an
    /// endpoint that acts as server): the driver abandons it without a verdict
    pub lost: bool,
}

pub struct CallCtx<'a> {
    pub call: &'a Call,
    pub events: &'a [Ev],
    pub status_before: St,
}

impl Model {
    pub fn new(role: Role, idw: usize, ver: LVer) -> Self {
        let max_id = if idw == 2 { 65535 } else { u32::MAX };
        let mut known: BTreeSet<u32> = [1u32, 2, 3, 4, 5, max_id, max_id - 1].into_iter().collect();
        known.insert(0x100);
        Model {
            role,
            idw,
            max_id,
            ver: ver.to_ver(),
            offline: false,
            offline_since_connect: false,
            auto_pub: false,
            auto_ping: false,
            auto_map: false,
            auto_replace: false,
            ping_override: None,
            resp_to: 0,
            status: St::D,
            path: None,
            persistent: false,
            connections: 0,
            in_use: BTreeSet::new(),
            owner: BTreeMap::new(),
            known_ids: known,
            store: Vec::new(),
            handled: BTreeSet::new(),
            m_send: None,
            out: BTreeSet::new(),
            l_recv: None,
            inn: BTreeSet::new(),
            tam_peer: 0,
            bind_out: BTreeMap::new(),
            app_alias: BTreeMap::new(),
            transport_open: false,
            app_alias_before: BTreeMap::new(),
            tam_local: 0,
            bind_in: BTreeMap::new(),
            bind_in_unknown: false,
            max_send: None,
            max_recv: None,
            armed: BTreeSet::new(),
            ka_ms: 0,
            ska_ms: None,
            recv_k_ms: 0,
            pending: Vec::new(),
            max_inflight: 0,
            frames_seen: 0,
            resync_handled: false,
            unsynced: false,
            sei_zero_connack: false,
            resync_store: false,
            lost: false,
        }
    }
    fn v5(&self) -> bool {
        self.ver == Some(Ver::V5)
    }
    fn new_session(&mut self) {
        self.store.clear();
        self.in_use.clear();
        self.owner.clear();
        self.handled.clear();
    }
    fn new_connection(&mut self) {
        self.m_send = None;
        self.l_recv = None;
        self.max_send = None;
        self.max_recv = None;
        self.tam_peer = 0;
        self.tam_local = 0;
        self.bind_out.clear();
        self.bind_in.clear();
        self.app_alias.clear();
        self.bind_in_unknown = false;
        self.out.clear();
        self.inn.clear();
        self.ska_ms = None;
        self.recv_k_ms = 0;
        self.ka_ms = 0;
        self.offline_since_connect = false;
        self.unsynced = false;
        self.connections += 1;
        // pending SUBSCRIBE/UNSUBSCRIBE ids are forgotten by the library's initialize() if the application
        // did not report the close first; the driver contract always reports it, so none are pending here
    }
    /// expected PINGREQ send interval (client path)
    pub fn ping_ms(&self) -> u64 {
        self.ping_override.or(self.ska_ms).unwrap_or(self.ka_ms)
    }
    /// outbound flow control is judged on an established v5.0 connection, and on a server between CONNECT and
    /// CONNACK (the limit of THIS connection is already known there)
    pub fn flow_judged(&self) -> bool {
        self.v5() && !self.unsynced && (self.status == St::Cd || (self.status == St::Cg && self.path == Some(Path::Server)))
    }
    pub fn store_mode(&self) -> bool {
        self.persistent || self.offline_since_connect
    }

    pub fn state_json(&self) -> Value {
        json!({"status": format!("{:?}", self.status), "path": format!("{:?}", self.path), "ver": format!("{:?}", self.ver), "persistent": self.persistent,
            "in_use": self.in_use, "owner": format!("{:?}", self.owner), "store": self.store.iter().map(|e| format!("{}:{:?}", e.id, e.kind)).collect::<Vec<_>>(),
            "handled": self.handled, "M": self.m_send, "out": self.out, "L": self.l_recv, "inn": self.inn, "tam_peer": self.tam_peer, "bind_out": format!("{:?}", self.bind_out.iter().map(|(k, v)| (*k, String::from_utf8_lossy(v).to_string())).collect::<Vec<_>>()),
            "tam_local": self.tam_local, "max_send": self.max_send, "max_recv": self.max_recv, "armed": format!("{:?}", self.armed), "ka_ms": self.ka_ms, "ska_ms": self.ska_ms, "recv_k_ms": self.recv_k_ms,
            "opts": format!("offline={} auto_pub={} auto_ping={} auto_map={} auto_replace={} override={:?} resp_to={}", self.offline, self.auto_pub, self.auto_ping, self.auto_map, self.auto_replace, self.ping_override, self.resp_to)})
    }

    // --------------------------------------------------------------------------------------------
    // event-list scans shared by all calls

    /// C19 K1/K2, C15 T1 + armed-set update, C14 Z1, inbound-flow bookkeeping from our own acks.
    fn scan_events(&mut self, cx: &CallCtx, s: &mut Sink) {
        let evs = cx.events;
        // K1: no Close before a Send
        let first_close = evs.iter().position(|e| matches!(e, Ev::Close));
        let last_send = evs.iter().rposition(|e| matches!(e, Ev::Send { .. }));
        if evs.iter().any(|e| matches!(e, Ev::Close)) {
            s.hit("K1-close-after-last-send");
        }
        if let (Some(c), Some(sd)) = (first_close, last_send) {
            if c < sd {
                s.fail("C19", "K1-close-after-last-send", format!("call={}", call_kind(cx.call)), format!("RequestClose at index {} precedes RequestSendPacket at index {} in {}", c, sd, evs_short(evs)));
            }
        }
        for e in evs {
            match e {
                Ev::Send { pkt, size, bytes, release_on_err } => {
                    // P11: the "release this id if the transport cannot send" hint names the packet's own id, and only for
                    // a packet whose exchange dies with a failed send: a first transmission that is not kept in the store
                    // (PUBLISH QoS>0 of a non-persistent session, SUBSCRIBE, UNSUBSCRIBE). A retransmission, a stored
                    // packet, an acknowledgement (its id is the peer's) or an id-less packet never carries one
                    if !self.unsynced {
                        s.hit("P11-send-error-hint-names-own-unstored-id");
                        let path = send_path(cx.call, pkt);
                        let want: Option<Option<u32>> = match pkt {
                            Pkt::Subscribe { id, .. } | Pkt::Unsubscribe { id, .. } => Some(Some(*id)),
                            Pkt::Publish { qos, id: Some(i), .. } if *qos > 0 && path == "direct" => {
                                if self.store_mode() {
                                    Some(None)
                                } else {
                                    Some(Some(*i))
                                }
                            }
                            Pkt::Publish { qos, .. } if *qos > 0 => Some(None),
                            _ => Some(None),
                        };
                        if let Some(w) = want {
                            if *release_on_err != w {
                                s.fail("C08", "P11-send-error-hint-names-own-unstored-id", format!("kind={:?};path={};got={};want={}", pkt.kind(), path, if release_on_err.is_some() { "some" } else { "none" }, if w.is_some() { "some" } else { "none" }), format!("{} requested for sending ({}) with release_packet_id_if_send_error = {:?}, expected {:?} (packets are stored: {})", pkt.short(), path, release_on_err, w, self.store_mode()));
                            }
                        }
                    }
                    // what is requested for sending is what the transport writes: exactly one frame, as long as announced
                    if matches!(pkt, Pkt::Publish { .. } | Pkt::Ack { kind: AckKind::Pubrel, .. }) {
                        s.hit("S10-sent-publish-or-pubrel-is-one-well-formed-frame");
                        let framed = crate::refcodec::frame_at(bytes);
                        let ok = matches!(framed, crate::refcodec::Framed::Frame { total, .. } if total == bytes.len()) && *size == bytes.len();
                        if !ok {
                            s.fail(
                                "C06",
                                "S10-sent-publish-or-pubrel-is-one-well-formed-frame",
                                format!("kind={:?};path={}", pkt.kind(), send_path(cx.call, pkt)),
                                format!("{} requested for sending: {} bytes, size() = {}, Remaining Length frames it as {:?}", pkt.short(), bytes.len(), size, framed),
                            );
                        }
                    }
                    // K2
                    let closing = match pkt {
                        Pkt::Disconnect { .. } => Some("disconnect"),
                        Pkt::Connack { code, .. } if *code != 0 => Some("connack-failure"),
                        _ => None,
                    };
                    if let Some(kind) = closing {
                        s.hit("K2-closing-packet-accompanied-by-close");
                        if first_close.is_none() {
                            s.fail("C19", "K2-closing-packet-accompanied-by-close", format!("packet={};ver={:?}", kind, pkt.ver()), format!("{} sent without RequestClose in the same list {}", pkt.short(), evs_short(evs)));
                        }
                    }
                    // Z1
                    if pkt.ver() == Ver::V5 && !self.unsynced {
                        if let Some(lim) = self.max_send {
                            s.hit("Z1-sent-size-within-peer-maximum");
                            if (*size).max(bytes.len()) as u64 > lim as u64 {
                                s.fail(
                                    "C14",
                                    "Z1-sent-size-within-peer-maximum",
                                    format!("kind={:?};path={}", pkt.kind(), send_path(cx.call, pkt)),
                                    format!("{} of {} bytes requested for sending although the peer's Maximum Packet Size is {}", pkt.short(), size, lim),
                                );
                            }
                        }
                    }
                    // our acknowledgements complete inbound exchanges
                    match pkt {
                        Pkt::Ack { kind: AckKind::Puback, id, .. } | Pkt::Ack { kind: AckKind::Pubcomp, id, .. } => {
                            self.inn.remove(id);
                        }
                        Pkt::Ack { kind: AckKind::Pubrec, id, code: Some(c), .. } if *c >= 0x80 => {
                            self.inn.remove(id);
                        }
                        _ => {}
                    }
                }
                Ev::TimerReset { kind, ms } => {
                    self.armed.insert(*kind);
                    // T8: the receive-side keep-alive timer supervises a client: only the server side of a connection has
                    // one ("a server re-arms ... and never arms it for keep-alive 0"); an object that opened this
                    // connection as a client has no keep-alive of a peer to supervise, whatever an earlier connection had
                    if *kind == Timer::PingreqRecv && self.path == Some(Path::Client) && matches!(self.status, St::Cg | St::Cd) && !self.unsynced {
                        s.hit("T8-receive-timer-only-on-the-server-side");
                        s.fail("C15", "T8-receive-timer-only-on-the-server-side", format!("call={}", call_kind(cx.call)), format!("a connection opened as a client arms the PINGREQ receive timer ({} ms): events {}", ms, evs_short(evs)));
                    } else if *kind == Timer::PingreqRecv {
                        s.hit("T8-receive-timer-only-on-the-server-side");
                    }
                }
                Ev::TimerCancel(k) => {
                    s.hit("T1-cancel-only-armed");
                    if !self.armed.remove(k) {
                        s.fail("C15", "T1-cancel-only-armed", format!("timer={:?};call={}", k, call_kind(cx.call)), format!("RequestTimerCancel({:?}) although the timer is not armed; events {}", k, evs_short(evs)));
                    }
                }
                _ => {}
            }
        }
        // T3: no local call arms a timer while disconnected
        if cx.call.is_local() && cx.status_before == St::D && self.status == St::D {
            s.hit("T3-no-arming-while-disconnected");
            if let Some(Ev::TimerReset { kind, .. }) = evs.iter().find(|e| matches!(e, Ev::TimerReset { .. })) {
                s.fail("C15", "T3-no-arming-while-disconnected", format!("timer={:?};call={}", kind, call_kind(cx.call)), format!("{} while disconnected returned {}", cx.call.short(), evs_short(evs)));
            }
        }
        // T6: PINGREQ sent => response timer armed iff configured
        if evs.iter().any(|e| matches!(e, Ev::Send { pkt: Pkt::Pingreq { .. }, .. })) {
            s.hit("T6-pingreq-arms-response-timer");
            let reset = evs.iter().find_map(|e| if let Ev::TimerReset { kind: Timer::PingrespRecv, ms } = e { Some(*ms) } else { None });
            let want = if self.resp_to > 0 { Some(self.resp_to) } else { None };
            if reset != want {
                s.fail("C15", "T6-pingreq-arms-response-timer", format!("configured={}", self.resp_to > 0), format!("PINGREQ sent with response timeout {} ms configured, events {}", self.resp_to, evs_short(evs)));
            }
        }
    }

    fn expect_ping_rearm(&self, cx: &CallCtx, s: &mut Sink, why: &str) {
        // T4: client, connected: after sending, PingreqSend re-armed with the priority interval (or not at all for 0)
        if self.path != Some(Path::Client) || self.status != St::Cd || self.unsynced {
            return;
        }
        s.hit("T4-client-rearms-pingreq-after-send");
        let want = self.ping_ms();
        let last_send = cx.events.iter().rposition(|e| matches!(e, Ev::Send { .. })).unwrap_or(0);
        let reset_after: Option<u64> = cx.events[last_send..].iter().find_map(|e| if let Ev::TimerReset { kind: Timer::PingreqSend, ms } = e { Some(*ms) } else { None });
        let any_reset: Option<u64> = cx.events.iter().rev().find_map(|e| if let Ev::TimerReset { kind: Timer::PingreqSend, ms } = e { Some(*ms) } else { None });
        if want == 0 {
            if let Some(ms) = any_reset {
                s.fail("C15", "T4-client-rearms-pingreq-after-send", format!("why={};want=0", why), format!("PINGREQ timer armed with {} ms although the effective interval is 0 (override {:?}, server keep alive {:?}, keep alive {}); events {}", ms, self.ping_override, self.ska_ms, self.ka_ms, evs_short(cx.events)));
            }
        } else if reset_after != Some(want) {
            s.fail(
                "C15",
                "T4-client-rearms-pingreq-after-send",
                format!("why={};got={}", why, if reset_after.is_some() { "wrong-interval" } else { "none" }),
                format!("client sent a packet but PINGREQ timer re-arm is {:?}, expected {} ms (override {:?}, server keep alive {:?}, keep alive {}); events {}", reset_after, want, self.ping_override, self.ska_ms, self.ka_ms, evs_short(cx.events)),
            );
        }
    }

    /// a PUBLISH actually requested for sending: alias rules (C13) and flow accounting
    fn on_publish_sent(&mut self, pkt: &Pkt, intent: Option<&Pkt>, s: &mut Sink, how: &str) {
        // S13: the PUBLISH requested for sending is the one the application handed over - the library may only exchange the
        // topic for an alias or add one (automatic mapping / replacement); QoS, RETAIN, DUP, id, payload and every other
        // property go out as given, in order
        if let (Pkt::Publish { qos: q, retain: r, dup: d, id: i, payload: pl, props: ps, .. }, Some(Pkt::Publish { qos: aq, retain: ar, dup: ad, id: ai, payload: apl, props: aps, .. })) = (pkt, intent) {
            s.hit("S13-sent-publish-is-the-accepted-one");
            let strip = |v: &Vec<Prop>| v.iter().filter(|x| x.id != P_TA).cloned().collect::<Vec<Prop>>();
            if q != aq || r != ar || d != ad || i != ai || pl != apl || strip(ps) != strip(aps) {
                s.fail("C06", "S13-sent-publish-is-the-accepted-one", format!("how={}", how), format!("send({}) was passed on as {}: QoS, RETAIN, DUP, id, payload or the other properties differ", intent.unwrap().short(), pkt.short()));
            }
        }
        let Pkt::Publish { ver, topic, props, id, qos, .. } = pkt else { return };
        if *qos > 0 {
            if let Some(i) = id {
                self.out.insert(*i);
                self.max_inflight = self.max_inflight.max(self.out.len());
            }
        }
        if *ver != Ver::V5 || self.unsynced {
            return;
        }
        let alias = props.iter().find_map(|p| if let (P_TA, PVal::U16(a)) = (p.id, &p.val) { Some(*a) } else { None });
        // what topic did the application mean?
        let intended: Option<Vec<u8>> = match intent {
            Some(Pkt::Publish { topic: t, props: ps, .. }) => {
                if !t.is_empty() {
                    Some(t.clone())
                } else {
                    let a = ps.iter().find_map(|p| if let (P_TA, PVal::U16(a)) = (p.id, &p.val) { Some(*a) } else { None });
                    a.and_then(|a| self.app_alias.get(&a).cloned())
                }
            }
            _ => None,
        };
        if let Some(a) = alias {
            s.hit("AL2-alias-within-peer-maximum");
            if a == 0 || a > self.tam_peer {
                s.fail("C13", "AL2-alias-within-peer-maximum", format!("how={};tam_peer_zero={}", how, self.tam_peer == 0), format!("{} sent with Topic Alias {} but the peer's Topic Alias Maximum is {}", pkt.short(), a, self.tam_peer));
                return;
            }
        }
        if topic.is_empty() {
            s.hit("AL1-empty-topic-resolvable-at-receiver");
            match alias {
                None => s.fail("C13", "AL1-empty-topic-resolvable-at-receiver", format!("how={};why=no-alias", how), format!("{} sent with empty topic and no alias", pkt.short())),
                Some(a) => match self.bind_out.get(&a) {
                    None => s.fail("C13", "AL1-empty-topic-resolvable-at-receiver", format!("how={};why=unbound", how), format!("{} sent with empty topic and alias {} which no PUBLISH sent on this connection has bound (receiver table {:?})", pkt.short(), a, self.bind_out.keys().collect::<Vec<_>>())),
                    Some(bound) => {
                        if let Some(want) = &intended {
                            if bound != want {
                                s.fail("C13", "AL1-empty-topic-resolvable-at-receiver", format!("how={};why=wrong-topic", how), format!("{} sent with alias {} which the receiver resolves to {:?}, but the application asked for {:?}", pkt.short(), a, String::from_utf8_lossy(bound), String::from_utf8_lossy(want)));
                            }
                        }
                    }
                },
            }
        } else {
            if let Some(want) = &intended {
                s.hit("AL3-topic-is-the-intended-one");
                if topic != want {
                    s.fail("C13", "AL3-topic-is-the-intended-one", format!("how={}", how), format!("{} sent, application asked for topic {:?}", pkt.short(), String::from_utf8_lossy(want)));
                }
            }
            if let Some(a) = alias {
                self.bind_out.insert(a, topic.clone());
                // the application sees this packet in the RequestSendPacket event: from now on an
                // empty-topic PUBLISH with this alias means this topic
                self.app_alias.insert(a, topic.clone());
            }
        }
    }

    /// `regulate_for_store(p)` (read-only accessor) prepares a PUBLISH for a store the application keeps itself: it must
    /// give exactly what the library's own store would hold - the topic the alias stands for on the current connection,
    /// no Topic Alias, everything else untouched - or an error when the alias is not bound (AL8)
    pub fn check_regulate(&self, pkt: &Pkt, result: &Result<Pkt, String>, s: &mut Sink) {
        let Pkt::Publish { ver: Ver::V5, topic, props, qos, retain, dup, id, payload } = pkt else { return };
        if !self.v5() || self.unsynced || self.lost {
            return;
        }
        s.hit("AL8-regulate-for-store-resolves-like-the-store");
        let alias = props.iter().find_map(|p| if let (P_TA, PVal::U16(a)) = (p.id, &p.val) { Some(*a) } else { None });
        let want_topic: Option<Vec<u8>> = if !topic.is_empty() {
            Some(topic.clone())
        } else {
            match alias {
                Some(a) if self.status == St::Cd => self.bind_out.get(&a).cloned(),
                _ => None,
            }
        };
        let want_props: Vec<Prop> = props.iter().filter(|x| x.id != P_TA).cloned().collect();
        match (want_topic, result) {
            (None, Err(_)) => {}
            (None, Ok(q)) => s.fail("C13", "AL8-regulate-for-store-resolves-like-the-store", format!("why=resolved-unbound;status={:?}", self.status), format!("regulate_for_store({}) = {} although alias {:?} is not bound on the current connection (receiver table {:?})", pkt.short(), q.short(), alias, self.bind_out.keys().collect::<Vec<_>>())),
            (Some(t), Err(e)) => s.fail("C13", "AL8-regulate-for-store-resolves-like-the-store", "why=refused".into(), format!("regulate_for_store({}) failed with {} although the topic is {:?}", pkt.short(), e, String::from_utf8_lossy(&t))),
            (Some(t), Ok(q)) => {
                let same = matches!(q, Pkt::Publish { topic: qt, props: qp, qos: qq, retain: qr, dup: qd, id: qi, payload: qpl, .. } if *qt == t && *qp == want_props && qq == qos && qr == retain && qd == dup && qi == id && qpl == payload);
                if !same {
                    s.fail("C13", "AL8-regulate-for-store-resolves-like-the-store", "why=wrong-packet".into(), format!("regulate_for_store({}) = {}, expected topic {:?}, no alias, everything else unchanged", pkt.short(), q.short(), String::from_utf8_lossy(&t)));
                }
            }
        }
    }

    /// Retransmission at CONNACK(session present) / CONNACK sent: S4, Z2, AL4
    fn check_resend(&mut self, cx: &CallCtx, sends: &[&Ev], s: &mut Sink) {
        s.hit("S4-resend-store-in-order-after-connack");
        if self.sei_zero_connack && self.path == Some(Path::Client) {
            // CONNACK{session present, Session Expiry Interval 0}: the library discards the session on
            // receipt (recorded finding, pinned by its own test suite). One signature for the whole effect.
            let got = sends.len();
            if !self.store.is_empty() && got == 0 {
                s.fail(
                    "C06",
                    "S4-resend-store-in-order-after-connack",
                    "path=Some(Client);got=none;want=some;connack_session_expiry_interval=0".into(),
                    format!("CONNACK(session present, Session Expiry Interval 0): nothing retransmitted although the store holds {:?}; events {}", self.store.iter().map(|e| e.pkt.short()).collect::<Vec<_>>(), evs_short(cx.events)),
                );
            }
            return;
        }
        let mut expected: Vec<StoreEnt> = Vec::new();
        let mut dropped: Vec<StoreEnt> = Vec::new();
        for e in self.store.iter() {
            let size = rc::encode(&e.pkt, self.idw).len() as u64;
            match self.max_send {
                Some(lim) if self.v5() && size > lim as u64 => dropped.push(e.clone()),
                _ => expected.push(e.clone()),
            }
        }
        let got: Vec<&Pkt> = sends.iter().filter_map(|e| if let Ev::Send { pkt, .. } = e { Some(pkt) } else { None }).collect();
        let want: Vec<&Pkt> = expected.iter().map(|e| &e.pkt).collect();
        if got != want {
            s.fail(
                "C06",
                "S4-resend-store-in-order-after-connack",
                format!("path={:?};got={};want={}", self.path, if got.is_empty() { "none" } else { "some" }, if want.is_empty() { "none" } else { "some" }),
                format!("after CONNACK(session present) the retransmission list is {:?} but the store holds {:?} (oversize dropped: {:?}); events {}", got.iter().map(|p| p.short()).collect::<Vec<_>>(), want.iter().map(|p| p.short()).collect::<Vec<_>>(), dropped.iter().map(|e| e.id).collect::<Vec<_>>(), evs_short(cx.events)),
            );
            return;
        }
        for p in &got {
            if let Pkt::Publish { dup, topic, props, .. } = p {
                s.hit("AL4-stored-copy-full-topic-no-alias");
                if !*dup {
                    s.fail("C06", "S4-resend-dup-set", String::new(), format!("retransmitted {} without DUP", p.short()));
                }
                if topic.is_empty() || props.iter().any(|x| x.id == P_TA) {
                    s.fail("C13", "AL4-stored-copy-full-topic-no-alias", "where=resend".into(), format!("retransmitted {} carries an alias or an empty topic", p.short()));
                }
            }
        }
        for d in &dropped {
            s.hit("Z2-oversize-stored-dropped-and-released");
            s.hit("P9-oversize-drop-on-resume-releases-every-dropped-id");
            if !cx.events.iter().any(|e| matches!(e, Ev::Released(i) if *i == d.id)) {
                // the exchange is gone (nothing will ever complete it): without the release the id is leaked
                s.fail("C08", "P9-oversize-drop-on-resume-releases-every-dropped-id", format!("stage={:?}", d.kind), format!("stored {} is dropped as oversize on resume (peer Maximum Packet Size {:?}) but its id {} is not released: nothing owns it any more and acquire never returns it; events {}", d.pkt.short(), self.max_send, d.id, evs_short(cx.events)));
                s.fail("C14", "Z2-oversize-stored-dropped-and-released", String::new(), format!("stored packet id {} exceeds the peer's Maximum Packet Size {:?} but no NotifyPacketIdReleased; events {}", d.id, self.max_send, evs_short(cx.events)));
            }
            self.store.retain(|e| e.id != d.id);
            self.owner.remove(&d.id);
            // in_use is updated by the Released event handler
        }
        self.out = expected.iter().map(|e| e.id).collect();
        self.max_inflight = self.max_inflight.max(self.out.len());
    }

    fn apply_released(&mut self, cx: &CallCtx, s: &mut Sink) {
        for e in cx.events {
            if let Ev::Released(i) = e {
                s.hit("P3-release-announced-only-for-in-use-id");
                self.known_ids.insert(*i);
                if !self.in_use.remove(i) {
                    s.fail("C08", "P3-release-announced-only-for-in-use-id", format!("call={}", call_kind(cx.call)), format!("NotifyPacketIdReleased({}) although the id is not in use (or was already announced); events {}", i, evs_short(cx.events)));
                }
            }
        }
    }

    // --------------------------------------------------------------------------------------------
    // the calls

    pub fn on_call(&mut self, call: &Call, events: &[Ev], s: &mut Sink) {
        self.app_alias_before = self.app_alias.clone();
        let cx = CallCtx { call, events, status_before: self.status };
        match call {
            Call::Send { pkt, .. } => self.on_send(&cx, pkt, s),
            Call::Recv { bytes } => self.on_recv(&cx, bytes, s),
            Call::Timer(k) => self.on_timer(&cx, *k, s),
            Call::Closed => self.on_closed(&cx, s),
            Call::Acquire { result } => {
                s.hit("P1-acquire-returns-free-id");
                match result {
                    Ok(i) => {
                        self.known_ids.insert(*i);
                        if *i == 0 || self.in_use.contains(i) {
                            s.fail("C08", "P1-acquire-returns-free-id", String::new(), format!("acquire_packet_id() returned {} which is {}", i, if *i == 0 { "zero" } else { "in use" }));
                        }
                        self.in_use.insert(*i);
                        self.owner.insert(*i, Owner::App);
                    }
                    Err(e) => {
                        if (self.in_use.len() as u64) < self.max_id as u64 {
                            s.fail("C08", "P1-acquire-returns-free-id", "why=error-although-free-ids".into(), format!("acquire_packet_id() failed with {} although only {} ids are in use", e, self.in_use.len()));
                        }
                    }
                }
            }
            Call::Register { id, result } => {
                s.hit("P2-register-succeeds-iff-free");
                self.known_ids.insert(*id);
                let want = *id >= 1 && *id <= self.max_id && !self.in_use.contains(id);
                if result.is_ok() != want {
                    s.fail("C08", "P2-register-succeeds-iff-free", format!("got_ok={}", result.is_ok()), format!("register_packet_id({}) -> {:?} but the model says the id is {}", id, result, if want { "free" } else { "in use / out of range" }));
                }
                if result.is_ok() {
                    self.in_use.insert(*id);
                    self.owner.insert(*id, Owner::App);
                }
            }
            Call::Release { id } => {
                s.hit("P7-release-call-announces-iff-in-use");
                let was = self.in_use.contains(id);
                let ann = events.iter().filter(|e| matches!(e, Ev::Released(i) if i == id)).count();
                if (was && ann != 1) || (!was && ann != 0) || events.len() != ann {
                    s.fail("C08", "P7-release-call-announces-iff-in-use", format!("was_in_use={}", was), format!("release_packet_id({}) with the id {} returned {}", id, if was { "in use" } else { "free" }, evs_short(events)));
                }
                self.apply_released(&cx, s);
                if was {
                    self.owner.remove(id);
                }
            }
            Call::Erase { id } => {
                let has = self.store.iter().any(|e| e.id == *id && e.kind != SKind::Rel);
                s.hit("S7-erase-stored-publish");
                if has {
                    if !events.iter().any(|e| matches!(e, Ev::Released(i) if i == id)) {
                        s.fail("C06", "S7-erase-stored-publish", "why=no-release".into(), format!("erase_stored_publish({}) of a stored PUBLISH returned {}", id, evs_short(events)));
                    }
                    self.store.retain(|e| !(e.id == *id && e.kind != SKind::Rel));
                    self.owner.remove(id);
                    self.out.remove(id);
                } else if !events.is_empty() {
                    // an id whose exchange is still in flight (PUBREL stage) must not be given back
                    if matches!(self.owner.get(id), Some(Owner::PubComp) | Some(Owner::RelPending)) && events.iter().any(|e| matches!(e, Ev::Released(i) if i == id)) {
                        s.hit("P10-release-only-when-the-exchange-ends");
                        s.fail("C08", "P10-release-only-when-the-exchange-ends", format!("call=erase;owner={:?}", self.owner.get(id)), format!("erase_stored_publish({}) released the packet id although its QoS 2 exchange is past PUBREC and still awaits PUBCOMP: {}", id, evs_short(events)));
                    }
                    s.fail("C06", "S7-erase-stored-publish", "why=events-for-nothing".into(), format!("erase_stored_publish({}) with no stored PUBLISH of that id returned {}", id, evs_short(events)));
                } else if matches!(self.owner.get(id), Some(Owner::PubComp) | Some(Owner::RelPending)) {
                    s.hit("P10-release-only-when-the-exchange-ends");
                }
                self.apply_released(&cx, s);
                self.scan_events(&cx, s);
            }
            Call::SetOpt { opt, on } => match opt {
                Opt::OfflinePublish => {
                    self.offline = *on;
                    if *on {
                        self.offline_since_connect = true;
                    }
                }
                Opt::AutoPubResponse => self.auto_pub = *on,
                Opt::AutoPingResponse => self.auto_ping = *on,
                Opt::AutoMapTopicAlias => self.auto_map = *on,
                Opt::AutoReplaceTopicAlias => self.auto_replace = *on,
            },
            Call::SetPingInterval { ms } => {
                self.ping_override = *ms;
                self.scan_events(&cx, s);
            }
            Call::SetPingrespTimeout { ms } => self.resp_to = *ms,
            Call::Restore { packets, handled } => {
                for p in packets {
                    if let Some((id, kind)) = skind(p) {
                        if id == 0 || self.in_use.contains(&id) {
                            continue;
                        }
                        self.in_use.insert(id);
                        self.known_ids.insert(id);
                        self.owner.insert(
                            id,
                            match kind {
                                SKind::Pub1 => Owner::PubAck,
                                SKind::Pub2 => Owner::PubRec,
                                SKind::Rel => Owner::PubComp,
                            },
                        );
                        self.store.push(StoreEnt { id, kind, pkt: p.clone() });
                    }
                }
                self.handled = handled.clone();
            }
        }
    }

    fn on_send(&mut self, cx: &CallCtx, pkt: &Pkt, s: &mut Sink) {
        let evs = cx.events;
        let has_err = evs.iter().any(|e| e.is_error());
        let err_name = evs.iter().find_map(|e| if let Ev::Error(x) = e { Some(x.clone()) } else { None }).unwrap_or_default();
        let sent_self = evs.iter().any(|e| matches!(e, Ev::Send { pkt: p, .. } if p.kind() == pkt.kind()));
        let id_before_in_use = pkt.id().map(|i| self.in_use.contains(&i)).unwrap_or(false);
        if let Some(i) = pkt.id() {
            self.known_ids.insert(i);
        }
        self.apply_released(cx, s);
        // P12: a packet that starts or continues an exchange of ours on an id nobody holds is refused as invalid; there is
        // nothing to release and nothing goes out
        if let Some(i) = pkt.id() {
            let own_kind = matches!(pkt, Pkt::Publish { qos: 1 | 2, .. } | Pkt::Subscribe { .. } | Pkt::Unsubscribe { .. } | Pkt::Ack { kind: AckKind::Pubrel, .. });
            let role_ok = !matches!(pkt, Pkt::Subscribe { .. } | Pkt::Unsubscribe { .. }) || self.path == Some(Path::Client);
            if own_kind && role_ok && !id_before_in_use && cx.status_before == St::Cd && Some(pkt.ver()) == self.ver && !self.unsynced && i >= 1 && i <= self.max_id {
                s.hit("P12-send-on-a-free-id-is-refused");
                if !has_err || sent_self || evs.iter().any(|e| matches!(e, Ev::Released(x) if *x == i)) {
                    s.fail("C08", "P12-send-on-a-free-id-is-refused", format!("kind={:?};err={}", pkt.kind(), if has_err { err_name.as_str() } else { "none" }), format!("send({}) with packet id {} that is not in use: {}", pkt.short(), i, evs_short(evs)));
                }
            }
        }
        // X4: once the transport has been reported closed the object accepts a new connection
        if let Pkt::Connect { ver, .. } = pkt {
            if cx.status_before == St::D && self.role != Role::Server && self.ver == Some(*ver) {
                s.hit("X4-new-connection-accepted-after-close");
                if has_err || !sent_self {
                    s.fail("C05", "X4-new-connection-accepted-after-close", format!("path=client;err={}", err_name), format!("send(CONNECT) on a disconnected {:?} object was not passed on: {}", self.role, evs_short(evs)));
                }
            }
        }
        match pkt {
            Pkt::Connect { ver, clean, keep_alive, props, .. } if !has_err && sent_self => {
                self.new_connection();
                self.status = St::Cg;
                self.path = Some(Path::Client);
                self.ka_ms = *keep_alive as u64 * 1000;
                self.persistent = if *ver == Ver::V311 { !*clean } else { props.iter().any(|p| matches!((p.id, &p.val), (P_SEI, PVal::U32(v)) if *v != 0)) };
                if *ver == Ver::V5 {
                    self.l_recv = pkt.prop_u16(P_RM);
                    self.tam_local = pkt.prop_u16(P_TAM).unwrap_or(0);
                    self.max_recv = pkt.prop_u32(P_MPS);
                }
                if *clean {
                    self.new_session();
                }
            }
            Pkt::Connack { code, props, ver, .. } if !has_err && sent_self => {
                if *code == 0 {
                    self.status = St::Cd;
                    self.transport_open = true;
                    if *ver == Ver::V5 {
                        self.l_recv = pkt.prop_u16(P_RM);
                        self.tam_local = pkt.prop_u16(P_TAM).unwrap_or(0);
                        self.max_recv = pkt.prop_u32(P_MPS);
                        if let Some(k) = props.iter().find_map(|p| if let (P_SKA, PVal::U16(v)) = (p.id, &p.val) { Some(*v) } else { None }) {
                            self.recv_k_ms = k as u64 * 1500;
                        }
                        // the server has the last word on the session's lifetime
                        if let Some(sei) = pkt.prop_u32(P_SEI) {
                            self.persistent = sei != 0;
                        }
                    }
                    // retransmission right after the CONNACK and before any other packet
                    let sends: Vec<&Ev> = evs.iter().filter(|e| matches!(e, Ev::Send { .. })).collect();
                    if let Some((first, rest)) = sends.split_first() {
                        if matches!(first, Ev::Send { pkt: Pkt::Connack { .. }, .. }) {
                            self.check_resend(cx, rest, s);
                        }
                    }
                } else {
                    self.status = St::D;
                }
            }
            Pkt::Publish { qos, id, .. } => {
                if has_err {
                    s.hit("P5b-refused-send-releases-id");
                    if *qos > 0 && id_before_in_use {
                        let i = id.unwrap();
                        if self.in_use.contains(&i) {
                            s.fail("C08", "P5b-refused-send-releases-id", format!("kind=publish;reason={};role_may_send=true", err_name), format!("send({}) refused with {} but packet id {} stays in use and no release is announced; events {}", pkt.short(), err_name, i, evs_short(evs)));
                        } else {
                            self.owner.remove(&i);
                        }
                    }
                    if err_name == "ReceiveMaximumExceeded" && self.flow_judged() {
                        s.hit("F2-accept-iff-below-receive-maximum");
                        if let Some(m) = self.m_send {
                            if self.out.len() < m as usize {
                                s.fail("C12", "F2-accept-iff-below-receive-maximum", "dir=refused-below-limit".into(), format!("send({}) refused as Receive Maximum exceeded although only {} of {} exchanges are outstanding ({:?})", pkt.short(), self.out.len(), m, self.out));
                            }
                        }
                    }
                } else {
                    let sent = evs.iter().find_map(|e| match e {
                        Ev::Send { pkt: p @ Pkt::Publish { .. }, .. } if p.id() == pkt.id() => Some(p.clone()),
                        _ => None,
                    });
                    if *qos > 0 {
                        let i = id.unwrap();
                        // (a server knows the client's Receive Maximum from the CONNECT: it applies to what it queues before the CONNACK too)
                        if self.flow_judged() {
                            if let Some(m) = self.m_send {
                                s.hit("F2-accept-iff-below-receive-maximum");
                                if self.out.len() >= m as usize {
                                    s.fail("C12", "F2-accept-iff-below-receive-maximum", "dir=accepted-at-limit".into(), format!("send({}) accepted although {} of {} exchanges are already outstanding ({:?})", pkt.short(), self.out.len(), m, self.out));
                                }
                            }
                        }
                        self.owner.insert(i, if *qos == 1 { Owner::PubAck } else { Owner::PubRec });
                        // S1 is judged in post_checks (needs the actual store)
                    }
                    if sent.is_none() && *qos > 0 && self.status == St::Cg && self.path == Some(Path::Server) && self.v5() {
                        // queued for the flush after the CONNACK: already an exchange of this connection
                        self.out.insert(id.unwrap());
                    }
                    if let Some(p) = &sent {
                        // application intent: registration of an alias by this very packet counts once accepted
                        if let Pkt::Publish { topic, props, .. } = pkt {
                            if !topic.is_empty() {
                                if let Some(a) = props.iter().find_map(|x| if let (P_TA, PVal::U16(a)) = (x.id, &x.val) { Some(*a) } else { None }) {
                                    self.app_alias.insert(a, topic.clone());
                                }
                            }
                        }
                        self.on_publish_sent(p, Some(pkt), s, "app");
                        self.expect_ping_rearm(cx, s, "publish");
                    } else if let Pkt::Publish { topic, props, .. } = pkt {
                        // accepted but only queued: an alias registration carried by it never reaches the peer
                        let _ = (topic, props);
                    }
                }
            }
            Pkt::Ack { kind: AckKind::Pubrel, id, .. } => {
                if !has_err {
                    self.owner.insert(*id, Owner::PubComp);
                    if sent_self {
                        self.expect_ping_rearm(cx, s, "pubrel");
                    }
                }
            }
            Pkt::Ack { kind, id, code, .. } => {
                if !has_err && sent_self {
                    if *kind == AckKind::Pubrec && code.map(|c| c >= 0x80).unwrap_or(false) {
                        self.handled.remove(id);
                    }
                    self.expect_ping_rearm(cx, s, "ack");
                }
            }
            Pkt::Subscribe { id, .. } | Pkt::Unsubscribe { id, .. } => {
                if has_err {
                    s.hit("P5b-refused-send-releases-id");
                    if id_before_in_use {
                        if self.in_use.contains(id) {
                            s.fail("C08", "P5b-refused-send-releases-id", format!("kind={:?};reason={};role_may_send={}", pkt.kind(), err_name, self.role != Role::Server), format!("send({}) refused with {} but packet id {} stays in use and no release is announced; events {}", pkt.short(), err_name, id, evs_short(evs)));
                        } else {
                            self.owner.remove(id);
                        }
                    }
                } else if sent_self {
                    self.owner.insert(*id, if matches!(pkt, Pkt::Subscribe { .. }) { Owner::SubAck } else { Owner::UnsubAck });
                    self.expect_ping_rearm(cx, s, "subscribe");
                }
            }
            Pkt::Disconnect { .. } if !has_err && sent_self => {
                self.status = St::D;
            }
            _ => {
                if !has_err && sent_self {
                    self.expect_ping_rearm(cx, s, "other");
                }
            }
        }
        self.scan_events(cx, s);
        if matches!(pkt, Pkt::Disconnect { .. }) && !has_err && sent_self {
            s.hit("T2-no-timer-armed-after-close-or-disconnect");
            if !self.armed.is_empty() {
                s.fail("C15", "T2-no-timer-armed-after-close-or-disconnect", format!("after=disconnect-sent;timers={:?}", self.armed), format!("after sending DISCONNECT timers {:?} are still armed; events {}", self.armed, evs_short(evs)));
            }
        }
    }

    fn on_timer(&mut self, cx: &CallCtx, k: Timer, s: &mut Sink) {
        self.armed.remove(&k);
        self.apply_released(cx, s);
        let evs = cx.events;
        if cx.status_before == St::Cd {
            s.hit("T7-expiry-has-specified-effect");
            match k {
                Timer::PingreqSend => {
                    let impossible = self.v5() && self.max_send.map(|m| m < 2).unwrap_or(false);
                    if !impossible && !evs.iter().any(|e| matches!(e, Ev::Send { pkt: Pkt::Pingreq { .. }, .. })) {
                        s.fail("C15", "T7-expiry-has-specified-effect", "timer=PingreqSend".into(), format!("PINGREQ timer expired while connected but no PINGREQ requested: {}", evs_short(evs)));
                    }
                }
                _ => {
                    s.hit("K3-timeout-results-in-close");
                    let close = evs.iter().any(|e| matches!(e, Ev::Close));
                    let tiny = self.max_send.map(|m| m < 4).unwrap_or(false);
                    if !close {
                        s.fail("C19", "K3-timeout-results-in-close", format!("ver={:?};timer={:?};peer_max_packet_size_lt_4={}", self.ver, k, tiny), format!("{:?} expired on an established connection but no RequestClose: {}", k, evs_short(evs)));
                    }
                    // (a DISCONNECT with reason code is 3 bytes: it cannot be sent to a peer whose Maximum Packet Size is below that)
                    let impossible = self.max_send.map(|m| m < 3).unwrap_or(false);
                    if self.v5() && !impossible && !evs.iter().any(|e| matches!(e, Ev::Send { pkt: Pkt::Disconnect { code: Some(0x8D), .. }, .. })) {
                        s.fail("C15", "T7-expiry-has-specified-effect", format!("timer={:?};ver=V5;peer_max_packet_size_lt_4={}", k, tiny), format!("{:?} expired on a v5.0 connection but no DISCONNECT(Keep Alive timeout): {}", k, evs_short(evs)));
                    }
                }
            }
        }
        if evs.iter().any(|e| matches!(e, Ev::Send { pkt: Pkt::Disconnect { .. }, .. })) || (self.v5() && k != Timer::PingreqSend && evs.iter().any(|e| matches!(e, Ev::Close))) {
            self.status = St::D;
        }
        if k == Timer::PingreqSend && evs.iter().any(|e| matches!(e, Ev::Send { .. })) {
            self.expect_ping_rearm(cx, s, "pingreq");
        }
        self.scan_events(cx, s);
    }

    fn on_closed(&mut self, cx: &CallCtx, s: &mut Sink) {
        self.transport_open = false;
        let evs = cx.events;
        // P5c: which ids must be announced
        let mut want: BTreeSet<u32> = BTreeSet::new();
        let mut optional: BTreeSet<u32> = BTreeSet::new();
        for (id, o) in self.owner.iter() {
            if !self.in_use.contains(id) {
                continue;
            }
            match o {
                Owner::SubAck | Owner::UnsubAck => {
                    want.insert(*id);
                }
                Owner::PubAck | Owner::PubRec | Owner::RelPending | Owner::PubComp => {
                    if !self.persistent {
                        if self.offline_since_connect {
                            optional.insert(*id);
                        } else {
                            want.insert(*id);
                        }
                    }
                }
                Owner::App => {}
            }
        }
        let got: BTreeSet<u32> = evs.iter().filter_map(|e| if let Ev::Released(i) = e { Some(*i) } else { None }).collect();
        s.hit("P5c-close-releases-inflight-ids");
        let missing: Vec<u32> = want.difference(&got).copied().collect();
        let extra: Vec<u32> = got.iter().filter(|i| !want.contains(i) && !optional.contains(i)).copied().collect();
        if !missing.is_empty() {
            let owners: Vec<String> = missing.iter().map(|i| format!("{:?}", self.owner.get(i).unwrap())).collect();
            s.fail("C08", "P5c-close-releases-inflight-ids", format!("missing_owner={};persistent={}", owners[0], self.persistent), format!("notify_closed() (session persistent={}) did not release ids {:?} owned by {:?}; events {}", self.persistent, missing, owners, evs_short(evs)));
        }
        if !extra.is_empty() {
            s.fail("C08", "P5c-close-releases-inflight-ids", format!("extra=1;persistent={}", self.persistent), format!("notify_closed() (session persistent={}) released ids {:?} which belong to exchanges that survive the connection or to the application; events {}", self.persistent, extra, evs_short(evs)));
        }
        self.apply_released(cx, s);
        for i in got.iter() {
            self.owner.remove(i);
        }
        self.status = St::D;
        if !self.persistent {
            self.handled.clear();
            // the session ends with the connection: the statements require nothing to stay stored
            self.resync_store = true;
            if self.offline_since_connect {
                // offline publishing keeps the library in storing mode although the session is not
                // persistent: the statements do not say what happens to the handled set then - adopt
                // what the library reports once, without judging it
                self.resync_handled = true;
            }
        }
        self.bind_out.clear();
        self.bind_in.clear();
        self.app_alias.clear();
        self.tam_peer = 0;
        self.tam_local = 0;
        self.max_send = None;
        self.max_recv = None;
        self.pending.clear();
        self.inn.clear();
        self.scan_events(cx, s);
        s.hit("T2-no-timer-armed-after-close-or-disconnect");
        if !self.armed.is_empty() {
            s.fail("C15", "T2-no-timer-armed-after-close-or-disconnect", format!("after=notify_closed;timers={:?}", self.armed), format!("after notify_closed() timers {:?} are still armed; events {}", self.armed, evs_short(evs)));
        }
    }

    fn on_recv(&mut self, cx: &CallCtx, bytes: &[u8], s: &mut Sink) {
        let evs = cx.events;
        self.pending.extend_from_slice(bytes);
        self.apply_released(cx, s);
        match rc::frame_at(&self.pending) {
            rc::Framed::Partial => {
                s.hit("X6-partial-frame-yields-no-events");
                if !evs.is_empty() {
                    s.fail("C09", "X6-partial-frame-yields-no-events", String::new(), format!("recv of an incomplete frame ({} bytes pending) returned {}", self.pending.len(), evs_short(evs)));
                }
                self.scan_events(cx, s);
            }
            rc::Framed::OverlongLength { at } => {
                s.hit("X7-overlong-remaining-length-is-an-error");
                if self.pending.len() != at || !evs.iter().any(|e| e.is_error()) {
                    s.fail("C09", "X7-overlong-remaining-length-is-an-error", String::new(), format!("Remaining Length with a fifth byte: {} bytes consumed, events {}", self.pending.len(), evs_short(evs)));
                }
                self.pending.clear();
                self.scan_events(cx, s);
            }
            rc::Framed::Frame { total, .. } => {
                if total < self.pending.len() {
                    s.fail("C09", "X8-at-most-one-packet-per-call", String::new(), format!("one recv() call consumed {} bytes beyond the end of a frame", self.pending.len() - total));
                    self.pending.clear();
                    return;
                }
                let frame = std::mem::take(&mut self.pending);
                self.frames_seen += 1;
                self.on_frame(cx, &frame, s);
            }
        }
    }

    fn on_frame(&mut self, cx: &CallCtx, frame: &[u8], s: &mut Sink) {
        let evs = cx.events;
        let ver_before = self.ver;
        let recv: Option<(&Pkt, bool)> = evs.iter().find_map(|e| if let Ev::Recv { pkt, extracted, .. } = e { Some((pkt, *extracted)) } else { None });
        // AL9: the packet handed to the application is a well-formed packet of the size it reports (an alias-only PUBLISH is
        // delivered with the bound topic filled in: that rewritten packet may be stored, relayed or logged by the application)
        for e in evs.iter() {
            if let Ev::Recv { pkt, enc: (size, len, framed), .. } = e {
                s.hit("AL9-delivered-packet-is-well-formed");
                if size != len || !framed {
                    s.fail("C13", "AL9-delivered-packet-is-well-formed", format!("kind={:?}", pkt.kind()), format!("delivered {} reports size() = {} but serialises to {} bytes (Remaining Length frames it: {})", pkt.short(), size, len, framed));
                }
            }
        }
        let has_err = evs.iter().any(|e| e.is_error());
        let decoded: Option<Pkt> = ver_before.and_then(|v| rc::decode(frame, v, self.idw).ok());
        // X3: delivered, answered as duplicate, or reported
        s.hit("X3-frame-delivered-answered-or-reported");
        let dup_id = match &decoded {
            Some(Pkt::Publish { qos: 2, id: Some(i), .. }) => Some(*i),
            Some(_) => None,
            None => peek_qos2_publish_id(frame, self.idw),
        };
        let dup_answer = match dup_id {
            Some(i) => self.handled.contains(&i) && evs.iter().any(|e| matches!(e, Ev::Send { pkt: Pkt::Ack { kind: AckKind::Pubrec, id, .. }, .. } if *id == i)),
            None => false,
        };
        if recv.is_none() && !has_err && !dup_answer {
            let peek = peek_qos2_publish_id(frame, self.idw);
            let class = match &decoded {
                None if peek.map(|i| self.handled.contains(&i)).unwrap_or(false) => format!("qos2-duplicate;status={:?}", self.status),
                Some(Pkt::Publish { qos: 2, id: Some(i), .. }) if self.handled.contains(i) => format!("qos2-duplicate;status={:?}", self.status),
                Some(p) => format!("{:?};status={:?}", p.kind(), self.status),
                None => format!("undecodable;status={:?}", self.status),
            };
            s.fail("C05", "X3-frame-delivered-answered-or-reported", format!("frame={}", class), format!("complete frame {} produced neither NotifyPacketReceived nor NotifyError nor a duplicate answer: {}", hexs(frame), evs_short(evs)));
        }
        // Z3 inbound size
        if self.v5() {
            if let Some(lim) = self.max_recv {
                // size as the specification counts it (a non-minimally encoded Remaining Length is not our subject)
                let canonical = match rc::frame_at(frame) {
                    rc::Framed::Frame { body_off, total, .. } => 1 + rc::vbi_len((total - body_off) as u32) + (total - body_off),
                    _ => frame.len(),
                };
                if canonical as u64 > lim as u64 {
                    s.hit("Z3-oversize-inbound-not-delivered");
                    if recv.is_some() {
                        s.fail("C14", "Z3-oversize-inbound-not-delivered", "why=delivered".into(), format!("a {}-byte packet was delivered although the locally announced Maximum Packet Size is {}", frame.len(), lim));
                    } else if self.status == St::Cd && !self.max_send.map(|m| m < 3).unwrap_or(false) && !evs.iter().any(|e| matches!(e, Ev::Send { pkt: Pkt::Disconnect { code: Some(0x95), .. }, .. })) {
                        s.fail("C14", "Z3-oversize-inbound-not-delivered", "why=no-disconnect".into(), format!("a {}-byte packet over the local Maximum Packet Size {} was not answered with DISCONNECT(Packet too large): {}", frame.len(), lim, evs_short(evs)));
                    }
                }
            }
        }
        let status_at_frame = self.status;
        if let Some(Pkt::Connect { user, pass, .. }) = &decoded {
            if status_at_frame == St::D && self.role != Role::Client && !(user.is_none() && pass.is_some()) {
                s.hit("X4-new-connection-accepted-after-close");
                if !matches!(recv, Some((Pkt::Connect { .. }, _))) {
                    s.fail("C05", "X4-new-connection-accepted-after-close", "path=server".into(), format!("a well-formed CONNECT received by a disconnected {:?} object was not delivered: {}", self.role, evs_short(evs)));
                }
            }
        }
        if let Some((pkt, extracted)) = recv {
            if let Some(i) = pkt.id() {
                self.known_ids.insert(i);
            }
            match pkt {
                Pkt::Connect { ver, clean, keep_alive, props, .. } => {
                    self.new_connection();
                    self.ver = Some(*ver);
                    self.status = St::Cg;
                    self.path = Some(Path::Server);
                    self.recv_k_ms = *keep_alive as u64 * 1500;
                    self.persistent = if *ver == Ver::V311 { !*clean } else { props.iter().any(|p| matches!((p.id, &p.val), (P_SEI, PVal::U32(v)) if *v != 0)) };
                    if *ver == Ver::V5 {
                        self.m_send = pkt.prop_u16(P_RM);
                        self.tam_peer = pkt.prop_u16(P_TAM).unwrap_or(0);
                        self.max_send = pkt.prop_u32(P_MPS);
                    }
                    if *clean {
                        self.new_session();
                    }
                }
                Pkt::Connack { code, sp, props, ver, .. } => {
                    if self.path != Some(Path::Client) {
                        // an `Any` endpoint acting as server was handed a CONNACK: nothing defines the outcome
                        self.lost = true;
                        return;
                    }
                    if status_at_frame == St::Cd {
                        s.hit("S11-connack-on-established-connection-not-processed");
                        s.fail("C06", "S11-connack-on-established-connection-not-processed", format!("sp={}", sp), format!("a CONNACK (session present {}) arriving on an established connection was delivered and processed: {}", sp, evs_short(evs)));
                        return;
                    }
                    if status_at_frame != St::Cg {
                        // CONNACK without a CONNECT in progress: no property says what it means
                        self.unsynced = true;
                    }
                    if *code == 0 {
                        self.status = St::Cd;
                        self.transport_open = true;
                        if *ver == Ver::V5 {
                            self.m_send = pkt.prop_u16(P_RM);
                            self.tam_peer = pkt.prop_u16(P_TAM).unwrap_or(0);
                            self.max_send = pkt.prop_u32(P_MPS);
                            if let Some(k) = props.iter().find_map(|p| if let (P_SKA, PVal::U16(v)) = (p.id, &p.val) { Some(*v) } else { None }) {
                                self.ska_ms = Some(k as u64 * 1000);
                            }
                            self.sei_zero_connack = false;
                            if let Some(sei) = pkt.prop_u32(P_SEI) {
                                self.persistent = sei != 0;
                                self.sei_zero_connack = sei == 0;
                            }
                        }
                        if *sp {
                            let sends: Vec<&Ev> = evs.iter().filter(|e| matches!(e, Ev::Send { .. })).collect();
                            self.check_resend(cx, &sends, s);
                            if self.sei_zero_connack {
                                // the library treats Session Expiry Interval 0 as "no session" on receipt
                                // (pinned by its test suite; recorded under C06): follow it
                                self.new_session();
                                self.out.clear();
                            }
                        } else {
                            s.hit("S5-session-not-present-empties-store");
                            self.new_session();
                        }
                    }
                }
                Pkt::Publish { qos, id, topic, props, .. } => {
                    let alias = props.iter().find_map(|p| if let (P_TA, PVal::U16(a)) = (p.id, &p.val) { Some(*a) } else { None });
                    if *qos > 0 {
                        let i = id.unwrap();
                        // (the limit belongs to the transport connection: it still holds for what arrives after the library has
                        // sent its DISCONNECT and before the application reports the transport closed)
                        if self.v5() && (status_at_frame == St::Cd || (status_at_frame == St::D && self.transport_open)) && !self.unsynced {
                            if let Some(l) = self.l_recv {
                                s.hit("F3-inbound-excess-not-delivered");
                                if !self.inn.contains(&i) && self.inn.len() >= l as usize {
                                    s.fail("C12", "F3-inbound-excess-not-delivered", "why=delivered".into(), format!("{} delivered although {} unacknowledged QoS>0 publishes ({:?}) already reach the locally announced Receive Maximum {}", pkt.short(), self.inn.len(), self.inn, l));
                                }
                            }
                        }
                        self.inn.insert(i);
                    }
                    if *qos == 2 {
                        let i = id.unwrap();
                        s.hit("Q1-qos2-notified-at-most-once-per-exchange");
                        if self.handled.contains(&i) {
                            s.fail("C07", "Q1-qos2-notified-at-most-once-per-exchange", String::new(), format!("QoS 2 PUBLISH id {} notified again although no PUBREL / error PUBREC / new session intervened", i));
                        }
                        self.handled.insert(i);
                    }
                    if let Some(a) = alias {
                        s.hit("AL6-inbound-alias-in-range-and-bound");
                        if a == 0 || a > self.tam_local {
                            s.fail("C13", "AL6-inbound-alias-in-range-and-bound", "why=out-of-range".into(), format!("{} delivered with Topic Alias {} although the locally announced Topic Alias Maximum is {}", pkt.short(), a, self.tam_local));
                        } else if extracted && self.bind_in_unknown {
                            // table not predictable on this connection (see above): not judged
                        } else if extracted {
                            if !self.bind_in_unknown {
                                s.hit("AL5-inbound-alias-resolves-to-bound-topic");
                                match self.bind_in.get(&a) {
                                    None => s.fail("C13", "AL6-inbound-alias-in-range-and-bound", "why=unbound".into(), format!("{} delivered for alias {} which the peer never bound on this connection", pkt.short(), a)),
                                    Some(t) if t != topic => s.fail("C13", "AL5-inbound-alias-resolves-to-bound-topic", String::new(), format!("{} delivered for alias {} which the peer bound to {:?}", pkt.short(), a, String::from_utf8_lossy(t))),
                                    _ => {}
                                }
                            }
                        } else {
                            self.bind_in.insert(a, topic.clone());
                        }
                    }
                }
                Pkt::Ack { kind: AckKind::Puback, id, .. } => {
                    s.hit("S6-only-matching-ack-is-accepted");
                    if self.owner.get(id) == Some(&Owner::PubAck) {
                        self.complete(*id, SKind::Pub1, cx, s, "puback");
                    } else {
                        s.fail("C06", "S6-only-matching-ack-is-accepted", format!("ack=puback;owner={:?}", self.owner.get(id)), format!("PUBACK for id {} delivered although no QoS 1 PUBLISH with that id awaits it (owner {:?})", id, self.owner.get(id)));
                    }
                }
                Pkt::Ack { kind: AckKind::Pubrec, id, code, .. } => {
                    s.hit("S6-only-matching-ack-is-accepted");
                    if self.owner.get(id) == Some(&Owner::PubRec) {
                        self.store.retain(|e| !(e.id == *id && e.kind == SKind::Pub2));
                        if code.map(|c| c >= 0x80).unwrap_or(false) {
                            self.complete(*id, SKind::Pub2, cx, s, "pubrec-error");
                        } else {
                            self.owner.insert(*id, Owner::RelPending);
                            if evs.iter().any(|e| matches!(e, Ev::Send { pkt: Pkt::Ack { kind: AckKind::Pubrel, id: i, .. }, .. } if i == id)) {
                                self.owner.insert(*id, Owner::PubComp);
                            }
                        }
                    } else {
                        s.fail("C06", "S6-only-matching-ack-is-accepted", format!("ack=pubrec;owner={:?}", self.owner.get(id)), format!("PUBREC for id {} delivered although no QoS 2 PUBLISH with that id awaits it (owner {:?})", id, self.owner.get(id)));
                    }
                }
                Pkt::Ack { kind: AckKind::Pubcomp, id, .. } => {
                    s.hit("S6-only-matching-ack-is-accepted");
                    // (a PUBCOMP that overtakes our PUBREL still belongs to the exchange: PUBREC then PUBCOMP)
                    if matches!(self.owner.get(id), Some(Owner::PubComp) | Some(Owner::RelPending)) {
                        self.complete(*id, SKind::Rel, cx, s, "pubcomp");
                    } else {
                        s.fail("C06", "S6-only-matching-ack-is-accepted", format!("ack=pubcomp;owner={:?}", self.owner.get(id)), format!("PUBCOMP for id {} delivered although no PUBREL with that id awaits it (owner {:?})", id, self.owner.get(id)));
                    }
                }
                Pkt::Ack { kind: AckKind::Pubrel, id, .. } => {
                    self.handled.remove(id);
                }
                Pkt::Suback { id, .. } | Pkt::Unsuback { id, .. } => {
                    let want = if matches!(pkt, Pkt::Suback { .. }) { Owner::SubAck } else { Owner::UnsubAck };
                    if self.owner.get(id) == Some(&want) {
                        s.hit("P5a-completed-exchange-releases-id");
                        if !evs.iter().any(|e| matches!(e, Ev::Released(i) if i == id)) {
                            s.fail("C08", "P5a-completed-exchange-releases-id", format!("by={:?}", pkt.kind()), format!("{} completes the exchange but the id is not released: {}", pkt.short(), evs_short(evs)));
                        }
                        self.owner.remove(id);
                    }
                }
                _ => {}
            }
            // T5: a server re-arms the receive timer on every packet it accepts
            if self.path == Some(Path::Server) && matches!(pkt.kind(), Kind::Connect | Kind::Publish | Kind::Puback | Kind::Pubrec | Kind::Pubrel | Kind::Pubcomp | Kind::Subscribe | Kind::Unsubscribe | Kind::Pingreq | Kind::Auth) {
                s.hit("T5-server-rearms-receive-timer");
                let reset = evs.iter().rev().find_map(|e| if let Ev::TimerReset { kind: Timer::PingreqRecv, ms } = e { Some(*ms) } else { None });
                let want = if self.recv_k_ms > 0 { Some(self.recv_k_ms) } else { None };
                if reset != want {
                    s.fail("C15", "T5-server-rearms-receive-timer", format!("kind={:?};want_zero={}", pkt.kind(), want.is_none()), format!("server accepted {} with keep alive receive timeout {} ms but the timer request is {:?}; events {}", pkt.short(), self.recv_k_ms, reset, evs_short(evs)));
                }
            }
            // T6b: PINGRESP cancels the response timer
            if matches!(pkt, Pkt::Pingresp { .. }) && self.armed.contains(&Timer::PingrespRecv) {
                s.hit("T6b-pingresp-cancels-response-timer");
                if !evs.iter().any(|e| matches!(e, Ev::TimerCancel(Timer::PingrespRecv))) {
                    s.fail("C15", "T6b-pingresp-cancels-response-timer", String::new(), format!("PINGRESP received while the response timer is armed but no cancel: {}", evs_short(evs)));
                }
            }
        } else {
            // not delivered
            match &decoded {
                Some(Pkt::Publish { qos: 2, id: Some(i), topic, props, .. }) => {
                    if self.handled.contains(i) {
                        s.hit("Q4-duplicate-answered-with-pubrec");
                        if status_at_frame == St::Cd && !has_err && !dup_answer {
                            s.fail("C07", "Q4-duplicate-answered-with-pubrec", String::new(), format!("duplicate QoS 2 PUBLISH id {} neither answered with PUBREC nor reported: {}", i, evs_short(evs)));
                        }
                        // a retransmission answered with PUBREC is an inbound exchange of THIS connection: it counts
                        // against the Receive Maximum announced on it like any other (the handled set is older than the connection)
                        if dup_answer && self.v5() && status_at_frame == St::Cd && !self.unsynced {
                            if let Some(l) = self.l_recv {
                                s.hit("F3-inbound-excess-not-delivered");
                                if !self.inn.contains(i) && self.inn.len() >= l as usize {
                                    s.fail("C12", "F3-inbound-excess-not-delivered", "why=duplicate-answered-beyond-limit".into(), format!("retransmitted {} answered with PUBREC although {} unacknowledged QoS>0 publishes ({:?}) already reach the locally announced Receive Maximum {}", decoded.as_ref().unwrap().short(), self.inn.len(), self.inn, l));
                                }
                            }
                            self.inn.insert(*i);
                        }
                        if let Some(a) = props.iter().find_map(|p| if let (P_TA, PVal::U16(a)) = (p.id, &p.val) { Some(*a) } else { None }) {
                            if !topic.is_empty() && a >= 1 && a <= self.tam_local {
                                if has_err {
                                    // an error next to a suppressed duplicate may be a rejection of the frame or a
                                    // failed automatic response: the receive-side table can no longer be predicted
                                    self.bind_in_unknown = true;
                                } else {
                                    self.bind_in.insert(a, topic.clone());
                                }
                            }
                        }
                    } else if !has_err {
                        s.hit("Q3-validated-qos2-not-swallowed");
                        s.fail("C07", "Q3-validated-qos2-not-swallowed", format!("status={:?}", status_at_frame), format!("first QoS 2 PUBLISH id {} of an exchange was neither notified nor rejected: {}", i, evs_short(evs)));
                    }
                }
                None if !has_err => {
                    self.bind_in_unknown = true;
                }
                _ => {}
            }
        }
        // protocol error paths: DISCONNECT sent => D (v5.0: also when the DISCONNECT did not fit and only a close is requested)
        if self.v5() && status_at_frame == St::Cd && has_err && evs.iter().any(|e| matches!(e, Ev::Close)) {
            self.status = St::D;
        }
        for e in evs {
            if let Ev::Send { pkt: Pkt::Disconnect { .. }, .. } = e {
                self.status = St::D;
            }
            if let Ev::Send { pkt: Pkt::Connack { code, .. }, .. } = e {
                if *code != 0 {
                    self.status = St::D;
                }
            }
        }
        // publishes the library sends on its own (none today) and auto responses: ping re-arm on client
        if evs.iter().any(|e| matches!(e, Ev::Send { pkt, .. } if !matches!(pkt, Pkt::Disconnect { .. } | Pkt::Connack { .. }))) {
            let resend_call = matches!(recv, Some((Pkt::Connack { .. }, _)));
            self.expect_ping_rearm(cx, s, if resend_call { "resend-after-connack" } else { "auto-response" });
        }
        self.scan_events(cx, s);
    }

    fn complete(&mut self, id: u32, kind: SKind, cx: &CallCtx, s: &mut Sink, by: &'static str) {
        s.hit("P5a-completed-exchange-releases-id");
        if !cx.events.iter().any(|e| matches!(e, Ev::Released(i) if *i == id)) {
            s.fail("C08", "P5a-completed-exchange-releases-id", format!("by={}", by), format!("{} completes exchange {} but the id is not released: {}", by, id, evs_short(cx.events)));
        }
        self.store.retain(|e| !(e.id == id && e.kind == kind));
        self.owner.remove(&id);
        self.out.remove(&id);
    }

    // --------------------------------------------------------------------------------------------
    // probes after every call

    pub fn post_checks(&mut self, call: &Call, events: &[Ev], conn: &mut dyn Conn, s: &mut Sink, probe_blackbox: bool) {
        // --- store shadow (C06)
        let actual: Vec<Pkt> = match conn.stored() {
            Ok(v) => v,
            Err(p) => {
                s.fail("C05", "X1-no-panic", "call=get_stored_packets".into(), p.message);
                return;
            }
        };
        if self.resync_store {
            self.resync_store = false;
            self.store = actual.iter().filter_map(|p| skind(p).map(|(id, kind)| StoreEnt { id, kind, pkt: p.clone() })).collect();
        }
        // packets that may have been appended by this call: an accepted QoS>0 PUBLISH / PUBREL of the
        // application, or a PUBREL the library sent by itself in answer to a PUBREC
        let mut may_append: Vec<(u32, SKind, bool)> = Vec::new(); // (id, kind, sent)
        let accepted = !events.iter().any(|e| e.is_error());
        if let Call::Send { pkt, .. } = call {
            if let Some((id, kind)) = skind(pkt) {
                if accepted {
                    let sent = events.iter().any(|e| matches!(e, Ev::Send { pkt: p, .. } if p.id() == Some(id) && p.kind() == pkt.kind()));
                    may_append.push((id, kind, sent));
                    if kind != SKind::Rel {
                        s.hit("S1-accepted-publish-sent-or-stored");
                        let in_actual = actual.iter().any(|p| skind(p) == Some((id, kind)));
                        if !sent && !in_actual {
                            s.fail("C06", "S1-accepted-publish-sent-or-stored", format!("status={:?};persistent={};offline={}", self.status, self.persistent, self.offline), format!("send({}) returned no error but the packet was neither requested for sending nor stored (events {})", pkt.short(), evs_short(events)));
                        }
                    }
                }
            }
        }
        if let Call::Recv { .. } = call {
            for e in events {
                if let Ev::Send { pkt: p @ Pkt::Ack { kind: AckKind::Pubrel, id, .. }, .. } = e {
                    let _ = p;
                    may_append.push((*id, SKind::Rel, true));
                }
            }
        }
        for (id, kind, _sent) in may_append {
            let in_actual = actual.iter().rev().find(|p| skind(p) == Some((id, kind)));
            if self.persistent && (matches!(self.status, St::Cd | St::Cg) || self.offline || kind == SKind::Rel) {
                s.hit("S2-persistent-session-stores-until-acked");
                if in_actual.is_none() {
                    s.fail("C06", "S2-persistent-session-stores-until-acked", format!("kind={:?};status={:?}", kind, self.status), format!("{:?} id {} accepted under a persistent session but not in get_stored_packets()", kind, id));
                }
            }
            if let Some(p) = in_actual {
                if !self.store.iter().any(|e| e.id == id && e.kind == kind) {
                    self.store.push(StoreEnt { id, kind, pkt: p.clone() });
                    // the stored copy is the packet the application handed over: same QoS, RETAIN, payload and properties,
                    // its full topic (the one the application's alias stands for on THIS connection), no alias
                    if let (Call::Send { pkt: app @ Pkt::Publish { topic: at, props: aps, qos: aq, retain: ar, payload: apl, ver: Ver::V5, .. }, .. }, Pkt::Publish { topic: st, props: sps, qos: sq, retain: sr, payload: spl, .. }) = (call, p) {
                        if !self.unsynced {
                            s.hit("S12-stored-copy-is-the-accepted-packet");
                            let alias = aps.iter().find_map(|x| if let (P_TA, PVal::U16(a)) = (x.id, &x.val) { Some(*a) } else { None });
                            let intended: Option<Vec<u8>> = if !at.is_empty() { Some(at.clone()) } else { alias.and_then(|a| self.app_alias_before.get(&a).cloned()) };
                            let want_props: Vec<Prop> = aps.iter().filter(|x| x.id != P_TA).cloned().collect();
                            let got_props: Vec<Prop> = sps.iter().filter(|x| x.id != P_TA).cloned().collect();
                            match intended {
                                None => {
                                    s.hit("AL7-alias-only-publish-needs-a-binding-of-this-connection");
                                    s.fail("C13", "AL7-alias-only-publish-needs-a-binding-of-this-connection", format!("status={:?}", self.status), format!("send({}) was accepted and stored as {} although no PUBLISH of the current connection has bound alias {:?}: the topic comes from an earlier connection's table", app.short(), p.short(), alias));
                                }
                                Some(t) => {
                                    if *st != t {
                                        s.fail("C06", "S12-stored-copy-is-the-accepted-packet", "what=topic".into(), format!("send({}) stored as {}: the application meant topic {:?}", app.short(), p.short(), String::from_utf8_lossy(&t)));
                                        s.fail("C13", "AL4-stored-copy-full-topic-no-alias", "where=store;why=wrong-topic".into(), format!("send({}) stored as {}: the application meant topic {:?}", app.short(), p.short(), String::from_utf8_lossy(&t)));
                                    }
                                }
                            }
                            if sq != aq || sr != ar || spl != apl || got_props != want_props {
                                s.fail("C06", "S12-stored-copy-is-the-accepted-packet", "what=contents".into(), format!("send({}) stored as {}: QoS, RETAIN, payload or properties differ", app.short(), p.short()));
                            }
                        }
                    }
                }
            }
        }
        s.hit("S3-store-changes-only-for-a-cause");
        let shadow: Vec<&Pkt> = self.store.iter().map(|e| &e.pkt).collect();
        let act: Vec<&Pkt> = actual.iter().collect();
        if shadow != act {
            s.fail(
                "C06",
                "S3-store-changes-only-for-a-cause",
                format!("call={};delta={}", call_kind(call), if act.len() < shadow.len() { "lost" } else if act.len() > shadow.len() { "gained" } else { "changed" }),
                format!("after {} get_stored_packets() is {:?} but by the rules of the property it must be {:?}", call.short(), act.iter().map(|p| p.short()).collect::<Vec<_>>(), shadow.iter().map(|p| p.short()).collect::<Vec<_>>()),
            );
            // resynchronise so that one defect is reported once
            self.store = actual.iter().filter_map(|p| skind(p).map(|(id, kind)| StoreEnt { id, kind, pkt: p.clone() })).collect();
        }
        for p in &actual {
            if let Pkt::Publish { topic, props, ver: Ver::V5, .. } = p {
                s.hit("AL4-stored-copy-full-topic-no-alias");
                if topic.is_empty() || props.iter().any(|x| x.id == P_TA) {
                    s.fail("C13", "AL4-stored-copy-full-topic-no-alias", "where=store".into(), format!("stored {} carries an alias or an empty topic", p.short()));
                }
            }
        }
        // --- ids in use (C08)
        let ids: Vec<u32> = self.known_ids.iter().copied().collect();
        let hook = conn.in_use_hook(&ids);
        let mut actual_in_use: Option<BTreeSet<u32>> = hook.map(|v| v.into_iter().collect());
        if actual_in_use.is_none() || probe_blackbox {
            // black-box probe: register succeeds <=> free; undo immediately
            let mut set = BTreeSet::new();
            for i in ids.iter().copied().filter(|i| *i >= 1 && *i <= self.max_id) {
                match conn.register(i) {
                    Ok(Ok(())) => {
                        let _ = conn.release(i);
                    }
                    Ok(Err(_)) => {
                        set.insert(i);
                    }
                    Err(p) => {
                        s.fail("C08", "P8-id-calls-total", "call=register".into(), p.message);
                        return;
                    }
                }
            }
            if let Some(h) = &actual_in_use {
                if *h != set {
                    s.fail("C08", "P9-hook-and-probe-agree", String::new(), format!("hook says in use {:?}, register() probing says {:?}", h, set));
                }
            }
            actual_in_use = Some(set);
        }
        let actual_in_use = actual_in_use.unwrap();
        s.hit("S9-stored-packets-hold-their-id");
        for p in &actual {
            if let Some((id, _)) = skind(p) {
                if self.known_ids.contains(&id) && !actual_in_use.contains(&id) {
                    s.fail("C06", "S9-stored-packets-hold-their-id", format!("call={}", call_kind(call)), format!("after {} the store still holds {} but packet id {} is free", call.short(), p.short(), id));
                    break;
                }
            }
        }
        let model_known: BTreeSet<u32> = self.in_use.iter().copied().filter(|i| self.known_ids.contains(i)).collect();
        s.hit("P4-in-use-set-equals-model");
        if actual_in_use != model_known {
            let leaked: Vec<u32> = actual_in_use.difference(&model_known).copied().collect();
            let freed: Vec<u32> = model_known.difference(&actual_in_use).copied().collect();
            s.fail(
                "C08",
                "P4-in-use-set-equals-model",
                format!("call={};{}", call_kind(call), if !freed.is_empty() { "freed-without-announcement" } else { "in-use-after-announced-release" }),
                format!("after {} ids in use are {:?} but announcements/acquisitions so far give {:?} (silently freed {:?}, unexpectedly in use {:?}); events {}", call.short(), actual_in_use, model_known, freed, leaked, evs_short(events)),
            );
            self.in_use = actual_in_use.clone();
        }
        // --- handled set (C07)
        if let Ok(h) = conn.handled() {
            if self.resync_handled {
                self.resync_handled = false;
                self.handled = h.clone();
            }
            s.hit("Q2-handled-set-equals-model");
            if h != self.handled {
                s.fail("C07", "Q2-handled-set-equals-model", format!("call={};extra={}", call_kind(call), h.difference(&self.handled).count() > 0), format!("after {} get_qos2_publish_handled() = {:?} but notified-and-unreleased QoS 2 ids are {:?}", call.short(), h, self.handled));
                self.handled = h;
            }
        }
        // --- vacancy (C12)
        if self.flow_judged() {
            if let Ok(v) = conn.vacancy() {
                s.hit("F1-vacancy-equals-max-minus-outstanding");
                let want = self.m_send.map(|m| (m as usize).saturating_sub(self.out.len()) as u16);
                if v != want {
                    s.fail("C12", "F1-vacancy-equals-max-minus-outstanding", format!("call={};dir={}", call_kind(call), match (v, want) { (Some(a), Some(b)) if a > b => "too-high", (Some(_), Some(_)) => "too-low", _ => "presence" }), format!("after {} vacancy is {:?} but Receive Maximum {:?} minus outstanding {:?} gives {:?}", call.short(), v, self.m_send, self.out, want));
                }
            }
        }
    }
}

/// id of a QoS 2 PUBLISH frame by framing alone (works for bodies the reference decoder rejects)
pub fn peek_qos2_publish_id(frame: &[u8], idw: usize) -> Option<u32> {
    let rc::Framed::Frame { first, body_off, total } = rc::frame_at(frame) else { return None };
    if first >> 4 != 3 || (first >> 1) & 3 != 2 {
        return None;
    }
    let b = &frame[body_off..total];
    if b.len() < 2 {
        return None;
    }
    let tl = ((b[0] as usize) << 8) | b[1] as usize;
    let off = 2 + tl;
    if b.len() < off + idw {
        return None;
    }
    let mut v: u32 = 0;
    for i in 0..idw {
        v = (v << 8) | b[off + i] as u32;
    }
    Some(v)
}

pub fn call_kind(c: &Call) -> String {
    match c {
        Call::Send { pkt, .. } => format!("send-{:?}", pkt.kind()),
        Call::Recv { .. } => "recv".into(),
        Call::Timer(k) => format!("timer-{:?}", k),
        Call::Closed => "notify_closed".into(),
        Call::Acquire { .. } => "acquire".into(),
        Call::Register { .. } => "register".into(),
        Call::Release { .. } => "release".into(),
        Call::Erase { .. } => "erase".into(),
        Call::SetOpt { .. } => "set_opt".into(),
        Call::SetPingInterval { .. } => "set_pingreq_send_interval".into(),
        Call::SetPingrespTimeout { .. } => "set_pingresp_recv_timeout".into(),
        Call::Restore { .. } => "restore".into(),
    }
}
fn send_path(c: &Call, sent: &Pkt) -> &'static str {
    match c {
        Call::Send { pkt, .. } if pkt.kind() == sent.kind() => "direct",
        Call::Send { pkt: Pkt::Connack { .. }, .. } => "stored-resend",
        Call::Recv { .. } => {
            if matches!(sent, Pkt::Publish { .. }) {
                "stored-resend"
            } else {
                "automatic"
            }
        }
        Call::Timer(_) => "automatic",
        _ => "other",
    }
}
