//! Abstract packets: my own ADT with only spec-level fields (DESIGN Appendix D).
//! Shared by the reference codec (C03/C04/C18), the bridge to the library builders and the drivers.

use serde::Serialize;

#[derive(Clone, Copy, Debug, PartialEq, Eq, Hash, Serialize, PartialOrd, Ord)]
pub enum Ver {
    V311,
    V5,
}

#[derive(Clone, Debug, PartialEq, Eq, Hash, Serialize)]
pub enum PVal {
    Byte(u8),
    U16(u16),
    U32(u32),
    Vbi(u32),
    Str(Vec<u8>),
    Bin(Vec<u8>),
    Pair(Vec<u8>, Vec<u8>),
}

#[derive(Clone, Debug, PartialEq, Eq, Hash, Serialize)]
pub struct Prop {
    pub id: u8,
    pub val: PVal,
}

#[derive(Clone, Copy, Debug, PartialEq, Eq)]
pub enum PType {
    Byte,
    U16,
    U32,
    Vbi,
    Str,
    Bin,
    Pair,
}

/// MQTT 5.0 Table 2-4 (identifier -> data type). Written from the spec, independent of the library.
pub const PROP_TABLE: [(u8, PType, &str); 27] = [
    (1, PType::Byte, "PayloadFormatIndicator"),
    (2, PType::U32, "MessageExpiryInterval"),
    (3, PType::Str, "ContentType"),
    (8, PType::Str, "ResponseTopic"),
    (9, PType::Bin, "CorrelationData"),
    (11, PType::Vbi, "SubscriptionIdentifier"),
    (17, PType::U32, "SessionExpiryInterval"),
    (18, PType::Str, "AssignedClientIdentifier"),
    (19, PType::U16, "ServerKeepAlive"),
    (21, PType::Str, "AuthenticationMethod"),
    (22, PType::Bin, "AuthenticationData"),
    (23, PType::Byte, "RequestProblemInformation"),
    (24, PType::U32, "WillDelayInterval"),
    (25, PType::Byte, "RequestResponseInformation"),
    (26, PType::Str, "ResponseInformation"),
    (28, PType::Str, "ServerReference"),
    (31, PType::Str, "ReasonString"),
    (33, PType::U16, "ReceiveMaximum"),
    (34, PType::U16, "TopicAliasMaximum"),
    (35, PType::U16, "TopicAlias"),
    (36, PType::Byte, "MaximumQos"),
    (37, PType::Byte, "RetainAvailable"),
    (38, PType::Pair, "UserProperty"),
    (39, PType::U32, "MaximumPacketSize"),
    (40, PType::Byte, "WildcardSubscriptionAvailable"),
    (41, PType::Byte, "SubscriptionIdentifierAvailable"),
    (42, PType::Byte, "SharedSubscriptionAvailable"),
];

pub fn prop_type(id: u8) -> Option<PType> {
    PROP_TABLE.iter().find(|e| e.0 == id).map(|e| e.1)
}
pub fn prop_name(id: u8) -> &'static str {
    PROP_TABLE.iter().find(|e| e.0 == id).map(|e| e.2).unwrap_or("?")
}

/// Locations that carry properties (C18).
#[derive(Clone, Copy, Debug, PartialEq, Eq, Hash, Serialize)]
pub enum Loc {
    Connect,
    Will,
    Connack,
    Publish,
    Puback,
    Pubrec,
    Pubrel,
    Pubcomp,
    Subscribe,
    Suback,
    Unsubscribe,
    Unsuback,
    Disconnect,
    Auth,
}
pub const ALL_LOCS: [Loc; 14] = [
    Loc::Connect,
    Loc::Will,
    Loc::Connack,
    Loc::Publish,
    Loc::Puback,
    Loc::Pubrec,
    Loc::Pubrel,
    Loc::Pubcomp,
    Loc::Subscribe,
    Loc::Suback,
    Loc::Unsubscribe,
    Loc::Unsuback,
    Loc::Disconnect,
    Loc::Auth,
];

/// Which properties the spec allows where (MQTT 5.0 Table 2-4, column "Packet / Will Properties").
pub fn prop_allowed(id: u8, loc: Loc) -> bool {
    use Loc::*;
    match id {
        1 | 2 | 3 | 8 | 9 => matches!(loc, Publish | Will),
        11 => matches!(loc, Publish | Subscribe),
        17 => matches!(loc, Connect | Connack | Disconnect),
        18 => matches!(loc, Connack),
        19 => matches!(loc, Connack),
        21 | 22 => matches!(loc, Connect | Connack | Auth),
        23 => matches!(loc, Connect),
        24 => matches!(loc, Will),
        25 => matches!(loc, Connect),
        26 => matches!(loc, Connack),
        28 => matches!(loc, Connack | Disconnect),
        31 => matches!(
            loc,
            Connack | Puback | Pubrec | Pubrel | Pubcomp | Suback | Unsuback | Disconnect | Auth
        ),
        33 | 34 => matches!(loc, Connect | Connack),
        35 => matches!(loc, Publish),
        36 | 37 => matches!(loc, Connack),
        38 => true,
        39 => matches!(loc, Connect | Connack),
        40 | 41 | 42 => matches!(loc, Connack),
        _ => false,
    }
}
/// May the property occur more than once in that location?
pub fn prop_repeatable(id: u8, loc: Loc) -> bool {
    id == 38 || (id == 11 && loc == Loc::Publish)
}
/// Is the value allowed by the spec for this property?
pub fn prop_value_ok(p: &Prop) -> bool {
    match (p.id, &p.val) {
        (1 | 23 | 25 | 36 | 37 | 40 | 41 | 42, PVal::Byte(b)) => *b <= 1,
        (33, PVal::U16(v)) => *v != 0,
        (35, PVal::U16(v)) => *v != 0,
        (39, PVal::U32(v)) => *v != 0,
        (11, PVal::Vbi(v)) => *v != 0 && *v <= 268_435_455,
        _ => true,
    }
}

#[derive(Clone, Debug, PartialEq, Eq, Hash, Serialize)]
pub struct Will {
    pub topic: Vec<u8>,
    pub payload: Vec<u8>,
    pub qos: u8,
    pub retain: bool,
    pub props: Vec<Prop>,
}

#[derive(Clone, Copy, Debug, PartialEq, Eq, Hash, Serialize, PartialOrd, Ord)]
pub enum AckKind {
    Puback,
    Pubrec,
    Pubrel,
    Pubcomp,
}

#[derive(Clone, Debug, PartialEq, Eq, Hash, Serialize)]
pub enum Pkt {
    Connect {
        ver: Ver,
        clean: bool,
        keep_alive: u16,
        client_id: Vec<u8>,
        will: Option<Will>,
        user: Option<Vec<u8>>,
        pass: Option<Vec<u8>>,
        props: Vec<Prop>,
    },
    Connack {
        ver: Ver,
        sp: bool,
        code: u8,
        props: Vec<Prop>,
    },
    Publish {
        ver: Ver,
        dup: bool,
        qos: u8,
        retain: bool,
        topic: Vec<u8>,
        id: Option<u32>,
        props: Vec<Prop>,
        payload: Vec<u8>,
    },
    Ack {
        ver: Ver,
        kind: AckKind,
        id: u32,
        code: Option<u8>,
        props: Option<Vec<Prop>>,
    },
    Subscribe {
        ver: Ver,
        id: u32,
        props: Vec<Prop>,
        entries: Vec<(Vec<u8>, u8)>,
    },
    Suback {
        ver: Ver,
        id: u32,
        props: Vec<Prop>,
        codes: Vec<u8>,
    },
    Unsubscribe {
        ver: Ver,
        id: u32,
        props: Vec<Prop>,
        entries: Vec<Vec<u8>>,
    },
    Unsuback {
        ver: Ver,
        id: u32,
        props: Vec<Prop>,
        codes: Vec<u8>,
    },
    Pingreq {
        ver: Ver,
    },
    Pingresp {
        ver: Ver,
    },
    Disconnect {
        ver: Ver,
        code: Option<u8>,
        props: Option<Vec<Prop>>,
    },
    Auth {
        code: Option<u8>,
        props: Option<Vec<Prop>>,
    },
}

/// The 29 concrete packet kinds (kind x version); PUBLISH is one kind.
#[derive(Clone, Copy, Debug, PartialEq, Eq, Hash, Serialize, PartialOrd, Ord)]
pub enum Kind {
    Connect,
    Connack,
    Publish,
    Puback,
    Pubrec,
    Pubrel,
    Pubcomp,
    Subscribe,
    Suback,
    Unsubscribe,
    Unsuback,
    Pingreq,
    Pingresp,
    Disconnect,
    Auth,
}
pub const ALL_KINDS: [Kind; 15] = [
    Kind::Connect,
    Kind::Connack,
    Kind::Publish,
    Kind::Puback,
    Kind::Pubrec,
    Kind::Pubrel,
    Kind::Pubcomp,
    Kind::Subscribe,
    Kind::Suback,
    Kind::Unsubscribe,
    Kind::Unsuback,
    Kind::Pingreq,
    Kind::Pingresp,
    Kind::Disconnect,
    Kind::Auth,
];
impl Kind {
    /// MQTT control packet type nibble
    pub fn nibble(self) -> u8 {
        match self {
            Kind::Connect => 1,
            Kind::Connack => 2,
            Kind::Publish => 3,
            Kind::Puback => 4,
            Kind::Pubrec => 5,
            Kind::Pubrel => 6,
            Kind::Pubcomp => 7,
            Kind::Subscribe => 8,
            Kind::Suback => 9,
            Kind::Unsubscribe => 10,
            Kind::Unsuback => 11,
            Kind::Pingreq => 12,
            Kind::Pingresp => 13,
            Kind::Disconnect => 14,
            Kind::Auth => 15,
        }
    }
    pub fn from_nibble(n: u8) -> Option<Kind> {
        ALL_KINDS.iter().copied().find(|k| k.nibble() == n)
    }
}

impl Pkt {
    pub fn kind(&self) -> Kind {
        match self {
            Pkt::Connect { .. } => Kind::Connect,
            Pkt::Connack { .. } => Kind::Connack,
            Pkt::Publish { .. } => Kind::Publish,
            Pkt::Ack { kind, .. } => match kind {
                AckKind::Puback => Kind::Puback,
                AckKind::Pubrec => Kind::Pubrec,
                AckKind::Pubrel => Kind::Pubrel,
                AckKind::Pubcomp => Kind::Pubcomp,
            },
            Pkt::Subscribe { .. } => Kind::Subscribe,
            Pkt::Suback { .. } => Kind::Suback,
            Pkt::Unsubscribe { .. } => Kind::Unsubscribe,
            Pkt::Unsuback { .. } => Kind::Unsuback,
            Pkt::Pingreq { .. } => Kind::Pingreq,
            Pkt::Pingresp { .. } => Kind::Pingresp,
            Pkt::Disconnect { .. } => Kind::Disconnect,
            Pkt::Auth { .. } => Kind::Auth,
        }
    }
    pub fn ver(&self) -> Ver {
        match self {
            Pkt::Connect { ver, .. }
            | Pkt::Connack { ver, .. }
            | Pkt::Publish { ver, .. }
            | Pkt::Ack { ver, .. }
            | Pkt::Subscribe { ver, .. }
            | Pkt::Suback { ver, .. }
            | Pkt::Unsubscribe { ver, .. }
            | Pkt::Unsuback { ver, .. }
            | Pkt::Pingreq { ver }
            | Pkt::Pingresp { ver }
            | Pkt::Disconnect { ver, .. } => *ver,
            Pkt::Auth { .. } => Ver::V5,
        }
    }
    /// packet identifier carried (if any)
    pub fn id(&self) -> Option<u32> {
        match self {
            Pkt::Publish { id, .. } => *id,
            Pkt::Ack { id, .. }
            | Pkt::Subscribe { id, .. }
            | Pkt::Suback { id, .. }
            | Pkt::Unsubscribe { id, .. }
            | Pkt::Unsuback { id, .. } => Some(*id),
            _ => None,
        }
    }
    pub fn props(&self) -> Option<&Vec<Prop>> {
        match self {
            Pkt::Connect { props, .. }
            | Pkt::Connack { props, .. }
            | Pkt::Publish { props, .. }
            | Pkt::Subscribe { props, .. }
            | Pkt::Suback { props, .. }
            | Pkt::Unsubscribe { props, .. }
            | Pkt::Unsuback { props, .. } => Some(props),
            Pkt::Ack { props, .. } | Pkt::Disconnect { props, .. } | Pkt::Auth { props, .. } => props.as_ref(),
            _ => None,
        }
    }
    pub fn prop_u16(&self, id: u8) -> Option<u16> {
        self.props()?.iter().find_map(|p| match (&p.val, p.id == id) {
            (PVal::U16(v), true) => Some(*v),
            _ => None,
        })
    }
    pub fn prop_u32(&self, id: u8) -> Option<u32> {
        self.props()?.iter().find_map(|p| match (&p.val, p.id == id) {
            (PVal::U32(v), true) => Some(*v),
            _ => None,
        })
    }
    pub fn short(&self) -> String {
        match self {
            Pkt::Connect { ver, clean, keep_alive, props, .. } => {
                format!("CONNECT{:?}(clean={},ka={},props={})", ver, clean, keep_alive, props_short(props))
            }
            Pkt::Connack { ver, sp, code, props } => {
                format!("CONNACK{:?}(sp={},rc={:#x},props={})", ver, sp, code, props_short(props))
            }
            Pkt::Publish { ver, dup, qos, retain, topic, id, props, payload } => format!(
                "PUBLISH{:?}(q{},id={:?},dup={},ret={},topic={:?},props={},pl={}B)",
                ver,
                qos,
                id,
                dup,
                retain,
                String::from_utf8_lossy(topic),
                props_short(props),
                payload.len()
            ),
            Pkt::Ack { ver, kind, id, code, props } => format!(
                "{:?}{:?}(id={},rc={:?},props={})",
                kind,
                ver,
                id,
                code,
                props.as_ref().map(|p| props_short(p)).unwrap_or("-".into())
            ),
            Pkt::Subscribe { ver, id, entries, .. } => format!("SUBSCRIBE{:?}(id={},n={})", ver, id, entries.len()),
            Pkt::Suback { ver, id, codes, .. } => format!("SUBACK{:?}(id={},codes={:?})", ver, id, codes),
            Pkt::Unsubscribe { ver, id, entries, .. } => format!("UNSUBSCRIBE{:?}(id={},n={})", ver, id, entries.len()),
            Pkt::Unsuback { ver, id, codes, .. } => format!("UNSUBACK{:?}(id={},codes={:?})", ver, id, codes),
            Pkt::Pingreq { ver } => format!("PINGREQ{:?}", ver),
            Pkt::Pingresp { ver } => format!("PINGRESP{:?}", ver),
            Pkt::Disconnect { ver, code, .. } => format!("DISCONNECT{:?}(rc={:?})", ver, code),
            Pkt::Auth { code, .. } => format!("AUTH(rc={:?})", code),
        }
    }
}

pub fn props_short(props: &[Prop]) -> String {
    let mut s = String::from("[");
    for (i, p) in props.iter().enumerate() {
        if i > 0 {
            s.push(',');
        }
        match &p.val {
            PVal::Byte(v) => s.push_str(&format!("{}={}", p.id, v)),
            PVal::U16(v) => s.push_str(&format!("{}={}", p.id, v)),
            PVal::U32(v) => s.push_str(&format!("{}={}", p.id, v)),
            PVal::Vbi(v) => s.push_str(&format!("{}={}", p.id, v)),
            PVal::Str(v) => s.push_str(&format!("{}=s{}", p.id, v.len())),
            PVal::Bin(v) => s.push_str(&format!("{}=b{}", p.id, v.len())),
            PVal::Pair(k, v) => s.push_str(&format!("{}=p{}/{}", p.id, k.len(), v.len())),
        }
    }
    s.push(']');
    s
}

// ---- convenience constructors used by the drivers -------------------------------------------------

pub fn p_u16(id: u8, v: u16) -> Prop {
    Prop { id, val: PVal::U16(v) }
}
pub fn p_u32(id: u8, v: u32) -> Prop {
    Prop { id, val: PVal::U32(v) }
}
pub fn p_byte(id: u8, v: u8) -> Prop {
    Prop { id, val: PVal::Byte(v) }
}
pub fn p_str(id: u8, v: &str) -> Prop {
    Prop { id, val: PVal::Str(v.as_bytes().to_vec()) }
}

pub const P_SEI: u8 = 17;
pub const P_SKA: u8 = 19;
pub const P_RM: u8 = 33;
pub const P_TAM: u8 = 34;
pub const P_TA: u8 = 35;
pub const P_MPS: u8 = 39;
