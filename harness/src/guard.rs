//! Panic capture: a silent panic hook records message + location in a thread-local;
//! every library call made by a workload runs inside `call`.

use std::cell::RefCell;
use std::panic::{self, AssertUnwindSafe};
use std::sync::Once;

#[derive(Clone, Debug)]
pub struct PanicInfo {
    pub message: String,
    pub location: String,
}
impl PanicInfo {
    /// message with digits stripped, so unrelated edits (line numbers, values) keep the signature stable
    pub fn class(&self) -> String {
        let mut out = String::new();
        let mut last_hash = false;
        for c in self.message.chars() {
            if c.is_ascii_digit() {
                if !last_hash {
                    out.push('#');
                    last_hash = true;
                }
            } else {
                out.push(c);
                last_hash = false;
            }
        }
        // (keep signatures short; cut on a character boundary and keep them ASCII-safe)
        let out: String = out.chars().take(100).map(|c| if c.is_ascii() { c } else { '?' }).collect();
        out
    }
}

thread_local! {
    static LAST: RefCell<Option<PanicInfo>> = const { RefCell::new(None) };
    static ARMED: RefCell<bool> = const { RefCell::new(false) };
}
static INIT: Once = Once::new();

pub fn install() {
    INIT.call_once(|| {
        let prev = panic::take_hook();
        panic::set_hook(Box::new(move |info| {
            let armed = ARMED.with(|a| *a.borrow());
            if !armed {
                prev(info);
                return;
            }
            let message = if let Some(s) = info.payload().downcast_ref::<&str>() {
                s.to_string()
            } else if let Some(s) = info.payload().downcast_ref::<String>() {
                s.clone()
            } else {
                "<non-string panic payload>".to_string()
            };
            let location = info.location().map(|l| format!("{}:{}", l.file(), l.line())).unwrap_or_default();
            LAST.with(|l| *l.borrow_mut() = Some(PanicInfo { message, location }));
        }));
    });
}

/// Run `f`, converting a panic into Err(PanicInfo).
pub fn call<T>(f: impl FnOnce() -> T) -> Result<T, PanicInfo> {
    install();
    ARMED.with(|a| *a.borrow_mut() = true);
    let r = panic::catch_unwind(AssertUnwindSafe(f));
    ARMED.with(|a| *a.borrow_mut() = false);
    match r {
        Ok(v) => Ok(v),
        Err(_) => Err(LAST.with(|l| l.borrow_mut().take()).unwrap_or(PanicInfo {
            message: "<unknown panic>".into(),
            location: String::new(),
        })),
    }
}
