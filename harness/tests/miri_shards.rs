//! Shards executed under Miri (`cargo +nightly miri nextest run`): undefined-behaviour interpreter for the
//! one `unsafe` block (MqttString::as_str), the SSO inline buffers, Arc<[u8]> payload slicing and the
//! hashbrown / indexmap / arrayvec usage as exercised by the same workloads the native checks run.
//! A shard fails on UB (Miri aborts), on a panic inside the library, or on a violation of a codec /
//! allocator rule. Connection shards only require the absence of UB and panics.

use mpcv_lib::checks::{c04, c20, codec};
use mpcv_lib::driver::{random_scenario, Driver, Focus};
use mpcv_lib::rng::Rng;

fn assert_clean(rep: &mpcv_lib::report::Report, allow_known_c03: bool) {
    for v in &rep.violations {
        if allow_known_c03 && v.signature.contains("password_without_user_name=1") {
            continue;
        }
        panic!("violation under miri: {} {}", v.signature, v.what);
    }
    assert!(rep.evaluations > 0);
}

macro_rules! codec_shard {
    ($name:ident, $seed:expr) => {
        #[test]
        fn $name() {
            let rep = codec::miri_workload($seed, 58);
            assert_clean(&rep, true);
            println!("MIRI-SHARD codec evaluations={} api_calls={}", rep.evaluations, rep.api_calls);
        }
    };
}
codec_shard!(codec_0, 1);
codec_shard!(codec_1, 2);
codec_shard!(codec_2, 3);
codec_shard!(codec_3, 4);

macro_rules! c04_shard {
    ($name:ident, $seed:expr) => {
        #[test]
        fn $name() {
            let rep = c04::miri_workload($seed, 240);
            assert_clean(&rep, false);
            println!("MIRI-SHARD c04 evaluations={} api_calls={}", rep.evaluations, rep.api_calls);
        }
    };
}
c04_shard!(parse_0, 11);
c04_shard!(parse_1, 12);
c04_shard!(parse_2, 13);
c04_shard!(parse_3, 14);

#[test]
fn alloc_0() {
    let rep = c20::miri_workload(21);
    assert_clean(&rep, false);
    println!("MIRI-SHARD c20 evaluations={} api_calls={}", rep.evaluations, rep.api_calls);
}
#[test]
fn alloc_1() {
    let rep = c20::miri_workload(22);
    assert_clean(&rep, false);
    println!("MIRI-SHARD c20 evaluations={} api_calls={}", rep.evaluations, rep.api_calls);
}

macro_rules! conn_shard {
    ($name:ident, $seed:expr, $focus:expr) => {
        #[test]
        fn $name() {
            let mut calls = 0;
            for k in 0..6u64 {
                let mut r = Rng::new($seed * 100 + k);
                let mut sc = random_scenario(&mut r, $focus, 25);
                sc.max_ops = 18;
                let out = Driver::new(sc, $seed * 100 + k).run();
                calls += out.api_calls;
                for f in &out.found {
                    assert!(f.rule != "X1-no-panic", "panic under miri: {}", f.what);
                }
            }
            println!("MIRI-SHARD conn api_calls={}", calls);
        }
    };
}
conn_shard!(conn_0, 31, Focus::Hostile);
conn_shard!(conn_1, 32, Focus::Store);
conn_shard!(conn_2, 33, Focus::Qos2In);
conn_shard!(conn_3, 34, Focus::Alias);
conn_shard!(conn_4, 35, Focus::Timers);
conn_shard!(conn_5, 36, Focus::General);
